import LinfaSpec.Proofs.Gmm
import Mathlib.Analysis.SpecialFunctions.Log.Basic
import Mathlib.LinearAlgebra.Matrix.NonsingularInverse

/-!
Helper lemmas for C10, second part: `rowMax`, `argmaxFirst` (any linear order),
the log-sum-exp over `ℝ`, and the precision matrix as a `Matrix` product.
-/
set_option linter.unusedSectionVars false

namespace LinfaSpec.Gmm
open LinfaSpec

section order
variable {α : Type} [LinearOrder α]

theorem rowMax_fold (t : List α) (a : α) :
    t.foldl (fun m v => if m < v then v else m) a ∈ a :: t ∧
    ∀ v ∈ a :: t, v ≤ t.foldl (fun m v => if m < v then v else m) a := by
  induction t generalizing a with
  | nil => simp
  | cons b t ih =>
    simp only [List.foldl_cons]
    obtain ⟨hmem, hle⟩ := ih (if a < b then b else a)
    constructor
    · rcases List.mem_cons.mp hmem with h | h
      · rw [h]
        split
        · simp
        · simp
      · exact List.mem_cons_of_mem _ (List.mem_cons_of_mem _ h)
    · intro v hv
      have ha' : a ≤ (if a < b then b else a) := by
        split
        · exact le_of_lt ‹_›
        · exact le_refl _
      have hb' : b ≤ (if a < b then b else a) := by
        split
        · exact le_refl _
        · exact not_lt.mp ‹_›
      have htop := hle _ (List.mem_cons_self)
      rcases List.mem_cons.mp hv with h | h
      · rw [h]; exact le_trans ha' htop
      · rcases List.mem_cons.mp h with h | h
        · rw [h]; exact le_trans hb' htop
        · exact hle v (List.mem_cons_of_mem _ h)

/-- the row maximum is an entry of the row and bounds every entry -/
theorem rowMax_spec [OfNat α 0] (l : List α) (hl : l ≠ []) :
    rowMax l ∈ l ∧ ∀ v ∈ l, v ≤ rowMax l := by
  cases l with
  | nil => exact absurd rfl hl
  | cons a t => exact rowMax_fold t a

/-- invariant of the `argmax` scan -/
theorem argmax_fold (pre t : List α) (best : Nat) (m : α)
    (hm : pre[best]? = some m) (hall : ∀ v ∈ pre, v ≤ m) :
    let st := t.foldl (fun (st : Nat × Nat × α) v =>
      let (best, i, m) := st
      if m < v then (i, i + 1, v) else (best, i + 1, m)) (best, pre.length, m)
    (pre ++ t)[st.1]? = some st.2.2 ∧ ∀ v ∈ pre ++ t, v ≤ st.2.2 := by
  induction t generalizing pre best m with
  | nil => simpa using ⟨hm, hall⟩
  | cons v t ih =>
    simp only [List.foldl_cons]
    by_cases hlt : m < v
    · simp only [hlt, if_true]
      have := ih (pre ++ [v]) pre.length v (by simp) (by
        intro u hu
        rcases List.mem_append.mp hu with h | h
        · exact le_trans (hall u h) (le_of_lt hlt)
        · simp at h; rw [h])
      simpa [List.append_assoc] using this
    · simp only [hlt, if_false]
      have := ih (pre ++ [v]) best m (by
        rw [List.getElem?_append_left]
        · exact hm
        · exact (List.getElem?_eq_some_iff.mp hm).1) (by
        intro u hu
        rcases List.mem_append.mp hu with h | h
        · exact hall u h
        · simp at h; rw [h]; exact not_lt.mp hlt)
      simpa [List.append_assoc] using this

/-- `argmaxFirst` returns a valid index whose entry bounds every entry -/
theorem argmaxFirst_spec [OfNat α 0] (l : List α) (hl : l ≠ []) :
    ∃ m, l[argmaxFirst l]? = some m ∧ ∀ v ∈ l, v ≤ m := by
  cases l with
  | nil => exact absurd rfl hl
  | cons a t =>
    have := argmax_fold [a] t 0 a (by simp) (by simp)
    simp only [List.length_singleton, List.singleton_append] at this
    exact ⟨_, this.1, this.2⟩

end order

/-! ### log-sum-exp over ℝ -/

noncomputable instance realTransc : Transc ℝ := ⟨Real.sqrt, Real.exp, Real.log⟩

@[simp] theorem transc_exp (x : ℝ) : Transc.exp x = Real.exp x := rfl
@[simp] theorem transc_ln (x : ℝ) : Transc.ln x = Real.log x := rfl

theorem sum_exp_pos (l : List ℝ) (hl : l ≠ []) : 0 < (l.map Real.exp).sum := by
  cases l with
  | nil => exact absurd rfl hl
  | cons a t =>
    simp only [List.map_cons, List.sum_cons]
    have : 0 ≤ (t.map Real.exp).sum := by
      apply List.sum_nonneg
      intro x hx
      obtain ⟨y, _, rfl⟩ := List.mem_map.mp hx
      exact (Real.exp_pos y).le
    linarith [Real.exp_pos a]

theorem sum_map_div (l : List ℝ) (g : ℝ → ℝ) (c : ℝ) :
    (l.map (fun s => g s / c)).sum = (l.map g).sum / c := by
  induction l with
  | nil => simp
  | cons a t ih => simp [ih, add_div]

/-- softmax rows sum to one: `Σ exp(s − ln Σ exp s) = 1` -/
theorem softmax_sum (sh : List ℝ) (hl : sh ≠ []) :
    ((sh.map (fun v => v - Real.log ((sh.map Real.exp).sum))).map Real.exp).sum = 1 := by
  have hS := sum_exp_pos sh hl
  rw [List.map_map]
  have : (Real.exp ∘ fun v => v - Real.log ((sh.map Real.exp).sum)) =
      fun s => Real.exp s / (sh.map Real.exp).sum := by
    funext s
    simp only [Function.comp]
    rw [Real.exp_sub, Real.exp_log hS]
  rw [this, sum_map_div]
  exact div_self hS.ne'

theorem logRespStable_snd (wlp : List ℝ) :
    (logRespStable wlp).2 =
      (wlp.map (fun v => v - rowMax wlp)).map
        (fun v => v - Real.log (((wlp.map (fun v => v - rowMax wlp)).map Real.exp).sum)) := by
  unfold logRespStable
  simp only [sumS_eq_sum, transc_ln]
  rfl

/-- shifting by a constant does not change the log-sum-exp:
`ln Σ exp(w − m) + m = ln Σ exp w` -/
theorem lse_shift (wlp : List ℝ) (hl : wlp ≠ []) (m : ℝ) :
    Real.log (((wlp.map (fun v => v - m)).map Real.exp).sum) + m =
      Real.log ((wlp.map Real.exp).sum) := by
  have hS := sum_exp_pos wlp hl
  rw [List.map_map]
  have : (Real.exp ∘ fun v => v - m) = fun s => Real.exp s / Real.exp m := by
    funext s
    simp only [Function.comp]
    rw [Real.exp_sub]
  rw [this, sum_map_div, Real.log_div hS.ne' (Real.exp_pos m).ne', Real.log_exp]
  ring

/-! ### precisions as a matrix product -/

section matrix
variable {α : Type} [Field α]

/-- a list-of-rows matrix as a `Matrix (Fin d) (Fin d)` -/
def toMat (d : Nat) (m : List (List α)) : Matrix (Fin d) (Fin d) α := fun a b => at2 m a.val b.val

theorem toMat_apply (d : Nat) (m : List (List α)) (a b : Fin d) :
    toMat d m a b = at2 m a.val b.val := rfl

theorem sumS_eq_sum' (l : List α) : sumS l = l.sum := by
  unfold sumS
  rw [List.sum_eq_foldl]

theorem sumRange_eq' (n : Nat) (f : Nat → α) : sumRange n f = ∑ i ∈ Finset.range n, f i := by
  unfold sumRange
  rw [sumS_eq_sum']
  induction n with
  | zero => simp
  | succ n ih =>
    rw [List.range_succ, List.map_append, List.sum_append, ih, Finset.sum_range_succ]
    simp

theorem precisionsFull_toMat (d : Nat) (pc : List (List α)) :
    toMat d (precisionsFull d pc) = toMat d pc * (toMat d pc).transpose := by
  funext a b
  rw [Matrix.mul_apply]
  simp only [Matrix.transpose_apply, toMat_apply]
  unfold precisionsFull
  rw [show at2 ((List.range d).map fun a => (List.range d).map fun b =>
        sumRange d fun c => at2 pc a c * at2 pc b c) a.val b.val =
      sumRange d fun c => at2 pc a.val c * at2 pc b.val c from by
    unfold at2
    rw [getD_map_range d _ a.val a.isLt, getD_map_range d _ b.val b.isLt]]
  rw [sumRange_eq', Finset.sum_range]

end matrix
end LinfaSpec.Gmm
