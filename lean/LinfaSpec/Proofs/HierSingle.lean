import LinfaSpec.Proofs.Hier
import Mathlib.Tactic.Tauto

/-! Helper lemmas for C06: clusters are never empty; single linkage with a distance threshold yields the
connected components of the below-threshold graph. -/
namespace LinfaSpec.Hier
open LinfaSpec

/-! ### single linkage: clusters below a threshold are the connected components -/

/-- two samples lie in the same cluster -/
def SameCl (cl : Clusters) (i j : Nat) : Prop := ∃ e ∈ cl, i ∈ e.2 ∧ j ∈ e.2

theorem sameCl_perm {a b : Clusters} (h : a.Perm b) (i j : Nat) : SameCl a i j ↔ SameCl b i j := by
  unfold SameCl
  constructor <;> rintro ⟨e, he, hij⟩
  · exact ⟨e, h.mem_iff.mp he, hij⟩
  · exact ⟨e, h.mem_iff.mpr he, hij⟩

theorem mem_members {cl : Clusters} {p : Nat} : p ∈ members cl ↔ ∃ e ∈ cl, p ∈ e.2 := by
  simp only [members, List.mem_flatten, List.mem_map]
  constructor
  · rintro ⟨l, ⟨e, he, rfl⟩, hp⟩; exact ⟨e, he, hp⟩
  · rintro ⟨e, he, hp⟩; exact ⟨e.2, ⟨e, he, rfl⟩, hp⟩

theorem sameCl_trans {cl : Clusters} (hn : (members cl).Nodup) {i j k : Nat}
    (h1 : SameCl cl i j) (h2 : SameCl cl j k) : SameCl cl i k := by
  induction cl with
  | nil => obtain ⟨e, he, _⟩ := h1; simp at he
  | cons e rest ih =>
    have hnd : (e.2 ++ members rest).Nodup := by simpa [members] using hn
    have hdis : ∀ p, p ∈ e.2 → p ∈ members rest → False :=
      fun p hp hq => (List.nodup_append.mp hnd).2.2 p hp p hq rfl
    obtain ⟨e1, he1, hi, hj1⟩ := h1
    obtain ⟨e2, he2, hj2, hk⟩ := h2
    rcases List.mem_cons.mp he1 with q1 | hr1 <;> rcases List.mem_cons.mp he2 with q2 | hr2
    · rw [q1] at hi; rw [q2] at hk
      exact ⟨e, List.mem_cons_self, hi, hk⟩
    · rw [q1] at hj1
      exact (hdis j hj1 (mem_members.mpr ⟨e2, hr2, hj2⟩)).elim
    · rw [q2] at hj2
      exact (hdis j hj2 (mem_members.mpr ⟨e1, hr1, hj1⟩)).elim
    · obtain ⟨e3, he3, h3⟩ := ih (List.nodup_append.mp hnd).2.1 ⟨e1, hr1, hi, hj1⟩ ⟨e2, hr2, hj2, hk⟩
      exact ⟨e3, List.mem_cons_of_mem _ he3, h3⟩

theorem sameCl_cons (e : Nat × List Nat) (cl : Clusters) (i j : Nat) :
    SameCl (e :: cl) i j ↔ (i ∈ e.2 ∧ j ∈ e.2) ∨ SameCl cl i j := by
  unfold SameCl
  simp only [List.mem_cons, exists_eq_or_imp]

/-- effect of one merge on "same cluster" and on the member set -/
theorem merge_perm {k1 k2 : Nat} {cl cl1 cl2 : Clusters} {a b : List Nat}
    (h1 : removeKey k1 cl = some (a, cl1)) (h2 : removeKey k2 cl1 = some (b, cl2)) :
    cl.Perm ((k1, a) :: (k2, b) :: cl2) :=
  (removeKey_some _ _ _ _ h1).1.trans (List.Perm.cons _ (removeKey_some _ _ _ _ h2).1)

theorem merge_sameCl {k1 k2 ct : Nat} {cl cl1 cl2 : Clusters} {a b : List Nat}
    (h1 : removeKey k1 cl = some (a, cl1)) (h2 : removeKey k2 cl1 = some (b, cl2)) (i j : Nat) :
    SameCl ((ct, a ++ b) :: cl2) i j ↔ SameCl cl i j ∨ (i ∈ a ∧ j ∈ b) ∨ (i ∈ b ∧ j ∈ a) := by
  rw [sameCl_perm (merge_perm h1 h2), sameCl_cons, sameCl_cons, sameCl_cons]
  simp only [List.mem_append]
  tauto

theorem merge_members {k1 k2 ct : Nat} {cl cl1 cl2 : Clusters} {a b : List Nat}
    (h1 : removeKey k1 cl = some (a, cl1)) (h2 : removeKey k2 cl1 = some (b, cl2)) (p : Nat) :
    p ∈ members ((ct, a ++ b) :: cl2) ↔ p ∈ members cl := by
  rw [(members_perm (merge_perm h1 h2)).mem_iff]
  simp [members]

/-- connectedness in the graph on the samples `0..n-1` whose edges are the pairs with `D i j < d` -/
inductive Conn {α : Type} [LT α] (D : Nat → Nat → α) (d : α) (n : Nat) : Nat → Nat → Prop
  | refl (i : Nat) : Conn D d n i i
  | edge (i j : Nat) : i < n → j < n → D i j < d → Conn D d n i j
  | symm {i j : Nat} : Conn D d n i j → Conn D d n j i
  | trans {i j k : Nat} : Conn D d n i j → Conn D d n j k → Conn D d n i k

/-- the single-linkage contract of `kodama::linkage` on the distance matrix `D` (validated by the harness on
every single-linkage dendrogram, `#linkage`): every step merges two live clusters, its dissimilarity is the
least distance between a member of the one and a member of the other, and the dendrogram is complete (one
cluster is left at the end) -/
inductive SLOK {α : Type} [LE α] (D : Nat → Nat → α) : List (Step α) → Clusters → Nat → Prop
  | nil (cl : Clusters) (ct : Nat) : cl.length ≤ 1 → SLOK D [] cl ct
  | cons (s : Step α) (rest : List (Step α)) (cl : Clusters) (ct : Nat) (a : List Nat) (cl1 : Clusters)
      (b : List Nat) (cl2 : Clusters) :
      removeKey s.c1 cl = some (a, cl1) → removeKey s.c2 cl1 = some (b, cl2) →
      (∃ i ∈ a, ∃ j ∈ b, D i j = s.dis) → (∀ i ∈ a, ∀ j ∈ b, s.dis ≤ D i j) →
      SLOK D rest ((ct, a ++ b) :: cl2) (ct + 1) → SLOK D (s :: rest) cl ct

section
variable {α : Type} [LinearOrder α]

/-- if every remaining merge of a complete single-linkage dendrogram is at or above `d`, samples of
different clusters are at distance at least `d` -/
theorem slok_sep (D : Nat → Nat → α) (hsym : ∀ i j, D i j = D j i) (d : α)
    (steps : List (Step α)) (cl : Clusters) (ct : Nat) (hc : SLOK D steps cl ct)
    (hge : ∀ s ∈ steps, d ≤ s.dis) (i j : Nat) (hi : i ∈ members cl) (hj : j ∈ members cl)
    (hne : ¬ SameCl cl i j) : d ≤ D i j := by
  induction hc with
  | nil cl ct hl =>
    exfalso; apply hne
    obtain ⟨e1, he1, hi1⟩ := mem_members.mp hi
    obtain ⟨e2, he2, hj2⟩ := mem_members.mp hj
    match cl, hl, he1, he2 with
    | [e], _, he1, he2 =>
      simp only [List.mem_singleton] at he1 he2
      rw [he1] at hi1; rw [he2] at hj2
      exact ⟨e, List.mem_singleton.mpr rfl, hi1, hj2⟩
  | cons s rest cl ct a cl1 b cl2 h1 h2 hex hall _ ih =>
    have hs : d ≤ s.dis := hge s List.mem_cons_self
    by_cases hab : i ∈ a ∧ j ∈ b
    · exact le_trans hs (hall i hab.1 j hab.2)
    · by_cases hba : i ∈ b ∧ j ∈ a
      · rw [hsym i j]; exact le_trans hs (hall j hba.2 i hba.1)
      · apply ih (fun s' hs' => hge s' (List.mem_cons_of_mem _ hs'))
          ((merge_members h1 h2 i).mpr hi) ((merge_members h1 h2 j).mpr hj)
        intro hsame
        rcases (merge_sameCl h1 h2 i j).mp hsame with h | h | h
        · exact hne h
        · exact hab h
        · exact hba h

/-- invariants of the threshold replay on a single-linkage dendrogram: clusters stay connected in the
below-threshold graph, and at the end different clusters are at least `d` apart -/
theorem replayGo_single (D : Nat → Nat → α) (hsym : ∀ i j, D i j = D j i) (d : α) (n : Nat)
    (steps : List (Step α)) (cl : Clusters) (ct : Nat) (hc : SLOK D steps cl ct)
    (hm : steps.Pairwise fun x y => x.dis ≤ y.dis)
    (hlt : ∀ p ∈ members cl, p < n)
    (hconn : ∀ e ∈ cl, ∀ i ∈ e.2, ∀ j ∈ e.2, Conn D d n i j)
    (cl' : Clusters) (h : replayGo (Crit.dist d) steps cl ct = some cl') :
    (∀ e ∈ cl', ∀ i ∈ e.2, ∀ j ∈ e.2, Conn D d n i j) ∧
    (∀ i j, i ∈ members cl' → j ∈ members cl' → ¬ SameCl cl' i j → d ≤ D i j) := by
  induction hc generalizing cl' with
  | nil cl ct hl =>
    simp only [replayGo, Option.some.injEq] at h
    subst h
    exact ⟨hconn, fun i j hi hj hne =>
      slok_sep D hsym d [] cl ct (SLOK.nil cl ct hl) (by simp) i j hi hj hne⟩
  | cons s rest cl ct a cl1 b cl2 h1 h2 hex hall hrest ih =>
    rw [List.pairwise_cons] at hm
    unfold replayGo at h
    by_cases hs : d ≤ s.dis
    · simp only [shouldStop, hs, decide_true, if_true, Option.some.injEq] at h
      subst h
      refine ⟨hconn, fun i j hi hj hne => ?_⟩
      apply slok_sep D hsym d (s :: rest) cl ct (SLOK.cons s rest cl ct a cl1 b cl2 h1 h2 hex hall hrest)
        _ i j hi hj hne
      intro s' hs'
      rcases List.mem_cons.mp hs' with rfl | hr
      · exact hs
      · exact le_trans hs (hm.1 s' hr)
    · have hlt' : s.dis < d := not_le.mp hs
      simp only [shouldStop, hs, decide_false, Bool.false_eq_true, if_false, h1, h2] at h
      have hp := merge_perm h1 h2
      have ha : ∀ i ∈ a, ∀ j ∈ a, Conn D d n i j :=
        hconn (s.c1, a) (hp.mem_iff.mpr List.mem_cons_self)
      have hb : ∀ i ∈ b, ∀ j ∈ b, Conn D d n i j :=
        hconn (s.c2, b) (hp.mem_iff.mpr (List.mem_cons_of_mem _ List.mem_cons_self))
      have hma : ∀ p ∈ a, p < n := fun p hpa =>
        hlt p (mem_members.mpr ⟨(s.c1, a), hp.mem_iff.mpr List.mem_cons_self, hpa⟩)
      have hmb : ∀ p ∈ b, p < n := fun p hpb =>
        hlt p (mem_members.mpr ⟨(s.c2, b), hp.mem_iff.mpr (List.mem_cons_of_mem _ List.mem_cons_self), hpb⟩)
      obtain ⟨i0, hi0, j0, hj0, hd⟩ := hex
      have hedge : Conn D d n i0 j0 := Conn.edge i0 j0 (hma i0 hi0) (hmb j0 hj0) (by rw [hd]; exact hlt')
      apply ih hm.2 (fun p hpm => hlt p ((merge_members h1 h2 p).mp hpm)) _ cl' h
      intro e he i hi j hj
      rcases List.mem_cons.mp he with rfl | he2
      · simp only [List.mem_append] at hi hj
        rcases hi with hi | hi <;> rcases hj with hj | hj
        · exact ha i hi j hj
        · exact ((ha i hi i0 hi0).trans hedge).trans (hb j0 hj0 j hj)
        · exact ((hb i hi j0 hj0).trans hedge.symm).trans (ha i0 hi0 j hj)
        · exact hb i hi j hj
      · exact hconn e (hp.mem_iff.mpr (List.mem_cons_of_mem _ (List.mem_cons_of_mem _ he2))) i hi j hj

end

/-- every cluster of the replay holds at least one sample -/
theorem removeKey_sub (k : Nat) (cl : Clusters) (ids : List Nat) (cl' : Clusters)
    (h : removeKey k cl = some (ids, cl')) : (k, ids) ∈ cl ∧ ∀ e ∈ cl', e ∈ cl := by
  have hp := (removeKey_some k cl ids cl' h).1
  exact ⟨hp.mem_iff.mpr List.mem_cons_self, fun e he => hp.mem_iff.mpr (List.mem_cons_of_mem _ he)⟩

theorem replayGo_nonempty {α : Type} [LE α] [DecidableLE α] (crit : Crit α) (steps : List (Step α))
    (cl : Clusters) (ct : Nat) (cl' : Clusters) (hne : ∀ e ∈ cl, e.2 ≠ [])
    (h : replayGo crit steps cl ct = some cl') : ∀ e ∈ cl', e.2 ≠ [] := by
  induction steps generalizing cl ct with
  | nil => simp [replayGo] at h; subst h; exact hne
  | cons s rest ih =>
    unfold replayGo at h
    split at h
    · simp at h; subst h; exact hne
    · split at h
      · cases h
      · rename_i a cl1 h1
        split at h
        · cases h
        · rename_i b cl2 h2
          have s1 := removeKey_sub _ _ _ _ h1
          have s2 := removeKey_sub _ _ _ _ h2
          apply ih _ _ _ h
          intro e he
          rcases List.mem_cons.mp he with rfl | he2
          · have : a ≠ [] := hne _ s1.1
            simpa using fun ha : a = [] => absurd ha this
          · exact hne e (s1.2 e (s2.2 e he2))


end LinfaSpec.Hier

