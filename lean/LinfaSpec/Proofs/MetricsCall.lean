import LinfaSpec.Proofs.Metrics
import LinfaSpec.Proofs.MetricsMore
import LinfaSpec.Proofs.MetricsReal

/-!
Helper lemmas for the call-level theorems of C05 (round 3, second audit): maps over the class list,
the Euclidean distance matrix the silhouette runs on.
-/
namespace LinfaSpec.Metrics
open LinfaSpec

/-- number of samples predicted `a` whose truth is `b` -/
def pairCount {L : Type} [DecidableEq L] (pairs : List (L × L)) (a b : L) : Nat :=
  (pairs.filter fun p => p.1 = a ∧ p.2 = b).length

/-- two lists that are index-wise related through `g` / `G` have the same image -/
theorem map_eq_of_getElem? {β γ δ : Type} (l : List β) (cs : List γ) (g : β → δ) (G : γ → δ)
    (hlen : l.length = cs.length)
    (h : ∀ (i : Nat) (c : γ), cs[i]? = some c → ∃ x, l[i]? = some x ∧ g x = G c) : l.map g = cs.map G := by
  apply List.ext_getElem?
  intro i
  rw [List.getElem?_map, List.getElem?_map]
  cases hc : cs[i]? with
  | none =>
    have : cs.length ≤ i := List.getElem?_eq_none_iff.mp hc
    have hl : l[i]? = none := List.getElem?_eq_none_iff.mpr (by omega)
    rw [hl]; rfl
  | some c =>
    obtain ⟨x, hx, hg⟩ := h i c hc
    rw [hx]; simp [hg]

section Dist
variable {α : Type} [Field α]

theorem zipWith_self_sq_sum (l : List α) : (List.zipWith (fun a b => (a - b) * (a - b)) l l).sum = 0 := by
  induction l with
  | nil => rfl
  | cons x xs ih => simp [ih]

end Dist

/-- entry `(i, j)` of the distance matrix is `sqrt` of the squared Euclidean distance of records `i`, `j` -/
theorem distMatrix_entry (x : List (List ℝ)) (i j : Nat) (xi xj : List ℝ)
    (hi : x[i]? = some xi) (hj : x[j]? = some xj) :
    ((distMatrix x).getD i [])[j]? =
      some (Real.sqrt ((List.zipWith (fun a b => (a - b) * (a - b)) xi xj).sum)) := by
  unfold distMatrix
  rw [List.getD_eq_getElem?_getD, List.getElem?_map, hi]
  simp only [Option.map_some, Option.getD_some]
  rw [List.getElem?_map, hj]
  simp only [Option.map_some, sqDist, sumS_eq_sum, Transc.sqrt]

theorem distMatrix_diag (x : List (List ℝ)) (i : Nat) (hi : i < x.length) :
    ((distMatrix x).getD i [])[i]? = some 0 := by
  have h := distMatrix_entry x i i x[i] x[i] (List.getElem?_eq_getElem hi) (List.getElem?_eq_getElem hi)
  rw [h, zipWith_self_sq_sum, Real.sqrt_zero]

end LinfaSpec.Metrics
