import LinfaSpec.Model.Kernel
import Mathlib.Tactic.Ring
import Mathlib.Tactic.Abel
import Mathlib.Tactic.Linarith
import Mathlib.Algebra.BigOperators.Group.List.Basic
import Mathlib.Algebra.BigOperators.Ring.Finset
import Mathlib.Algebra.Order.BigOperators.Ring.Finset

/-! Helper lemmas for the kernel half of C06. -/
namespace LinfaSpec.Kernel
open LinfaSpec

section sums
variable {α : Type} [AddCommMonoid α]

theorem foldl_add_eq (l : List α) (a : α) : l.foldl (· + ·) a = a + l.sum := by
  induction l generalizing a with
  | nil => simp
  | cons x xs ih => simp [List.foldl_cons, ih, add_assoc]

theorem sumS_eq_sum (l : List α) : sumS l = l.sum := by
  simp [sumS, foldl_add_eq]

theorem unrolled8_spec (xs : List α) (p : α × α × α × α × α × α × α × α) :
    let r := unrolled8 xs p
    r.1.1 + r.1.2.1 + r.1.2.2.1 + r.1.2.2.2.1 + r.1.2.2.2.2.1 + r.1.2.2.2.2.2.1 + r.1.2.2.2.2.2.2.1
        + r.1.2.2.2.2.2.2.2 + r.2.sum
      = p.1 + p.2.1 + p.2.2.1 + p.2.2.2.1 + p.2.2.2.2.1 + p.2.2.2.2.2.1 + p.2.2.2.2.2.2.1
        + p.2.2.2.2.2.2.2 + xs.sum := by
  fun_induction unrolled8 xs p with
  | case1 x0 x1 x2 x3 x4 x5 x6 x7 rest p0 p1 p2 p3 p4 p5 p6 p7 ih =>
    simp only [] at ih ⊢
    rw [ih]
    simp only [List.sum_cons]
    abel
  | case2 xs p h => simp

/-- ndarray's eightfold unrolled sum is the sum -/
theorem ndSum_eq_sum (xs : List α) : ndSum xs = xs.sum := by
  have h := unrolled8_spec xs (0, 0, 0, 0, 0, 0, 0, 0)
  simp only [] at h
  unfold ndSum
  generalize unrolled8 xs (0, 0, 0, 0, 0, 0, 0, 0) = r at h
  obtain ⟨⟨p0, p1, p2, p3, p4, p5, p6, p7⟩, rest⟩ := r
  simp only [foldl_add_eq]
  simp only [zero_add] at h ⊢
  rw [← h]
  abel

end sums

section symm
variable {α : Type} [CommRing α]

theorem zipWith_comm_of {β γ : Type} (f : β → β → γ) (hf : ∀ x y, f x y = f y x) (a b : List β) :
    List.zipWith f a b = List.zipWith f b a := by
  induction a generalizing b with
  | nil => cases b <;> simp
  | cons x xs ih => cases b with
    | nil => simp
    | cons y ys => simp [hf x y, ih ys]

theorem sqDist_comm (a b : List α) : sqDist a b = sqDist b a := by
  unfold sqDist
  rw [zipWith_comm_of (fun x y : α => (x - y) * (x - y)) (fun x y => by ring) a b]

theorem ndDot_comm (a b : List α) : ndDot a b = ndDot b a := by
  unfold ndDot
  rw [zipWith_comm_of (fun x y : α => x * y) (fun x y => mul_comm x y) a b]

theorem sqDist_self (a : List α) : sqDist a a = 0 := by
  rw [sqDist, sumS_eq_sum]
  induction a with
  | nil => simp
  | cons x xs ih => simp [ih]

end symm

/-! ### sums over indices -/
section finsum
open Finset
variable {α : Type} [CommRing α]

theorem list_sum_eq_range (l : List α) : l.sum = ∑ i ∈ range l.length, l.getD i 0 := by
  induction l with
  | nil => simp
  | cons x xs ih =>
    rw [List.length_cons, Finset.sum_range_succ', List.sum_cons, ih]
    simp [add_comm]

theorem dot_eq_range (a b : List α) (p : Nat) (ha : a.length = p) (hb : b.length = p) :
    (List.zipWith (· * ·) a b).sum = ∑ c ∈ range p, a.getD c 0 * b.getD c 0 := by
  rw [list_sum_eq_range]
  have hl : (List.zipWith (fun x y : α => x * y) a b).length = p := by simp [ha, hb]
  rw [hl]
  apply Finset.sum_congr rfl
  intro c hc
  have hc' : c < p := Finset.mem_range.mp hc
  simp [List.getD_eq_getElem?_getD, List.getElem?_zipWith, List.getElem?_eq_getElem, ha, hb, hc']


theorem zipWith_sum_range {β γ : Type} (f : β → γ → α) (a : List β) (b : List γ) (n : Nat)
    (ha : a.length = n) (hb : b.length = n) (da : β) (db : γ) :
    (List.zipWith f a b).sum = ∑ i ∈ range n, f (a.getD i da) (b.getD i db) := by
  rw [list_sum_eq_range]
  have hl : (List.zipWith f a b).length = n := by simp [ha, hb]
  rw [hl]
  apply Finset.sum_congr rfl
  intro c hc
  have hc' : c < n := Finset.mem_range.mp hc
  simp [List.getD_eq_getElem?_getD, List.getElem?_zipWith, ha, hb, hc']

theorem getD_map_of_lt {β γ : Type} (g : β → γ) (l : List β) (i : Nat) (h : i < l.length) (d : γ) (e : β) :
    (l.map g).getD i d = g (l.getD i e) := by
  simp [List.getD_eq_getElem?_getD, h]

theorem getD_mem {β : Type} (l : List β) (i : Nat) (h : i < l.length) (e : β) : l.getD i e ∈ l := by
  simp [List.getD_eq_getElem?_getD, h]

/-- `vᵀ K v = Σ_c (Σ_i v_i x_ic)²` for the linear kernel matrix of records with `p` features -/
theorem quadForm_linear [Div α] [Transc α] [KPow α] (X : List (List α)) (p : Nat)
    (hX : ∀ r ∈ X, r.length = p) (v : List α) (hv : v.length = X.length) :
    quadForm v (dense Method.linear X) =
      ∑ c ∈ range p, (∑ i ∈ range X.length, v.getD i 0 * (X.getD i []).getD c 0) ^ 2 := by
  unfold quadForm
  rw [sumS_eq_sum, zipWith_sum_range _ v _ X.length hv (by simp [dense]) 0 []]
  have h1 : ∀ i ∈ range X.length,
      v.getD i 0 * dotS ((dense Method.linear X).getD i []) v =
      v.getD i 0 * ∑ j ∈ range X.length,
        (∑ c ∈ range p, (X.getD i []).getD c 0 * (X.getD j []).getD c 0) * v.getD j 0 := by
    intro i hi
    have hi' : i < X.length := Finset.mem_range.mp hi
    congr 1
    unfold dense
    rw [getD_map_of_lt _ X i hi' [] []]
    unfold dotS
    rw [sumS_eq_sum, zipWith_sum_range _ _ v X.length (by simp) hv 0 0]
    apply Finset.sum_congr rfl
    intro j hj
    have hj' : j < X.length := Finset.mem_range.mp hj
    rw [getD_map_of_lt _ X j hj' 0 []]
    simp only [kernelFn, ndDot]
    rw [ndSum_eq_sum, dot_eq_range _ _ p (hX _ (getD_mem X i hi' [])) (hX _ (getD_mem X j hj' []))]
  rw [Finset.sum_congr rfl h1]
  simp only [Finset.mul_sum, Finset.sum_mul, sq]
  rw [Finset.sum_comm]
  rw [Finset.sum_congr rfl (fun y _ => Finset.sum_comm)]
  rw [Finset.sum_comm]
  apply Finset.sum_congr rfl
  intro c _
  apply Finset.sum_congr rfl
  intro j _
  apply Finset.sum_congr rfl
  intro i _
  ring

end finsum
end LinfaSpec.Kernel
