import LinfaSpec.Proofs.Tree
import Mathlib.Algebra.Order.Field.Basic
import Mathlib.Tactic.Linarith
import Mathlib.Tactic.Ring
import Mathlib.Algebra.BigOperators.Group.List.Basic
import Mathlib.Algebra.Order.BigOperators.Group.List

/-!
Helper lemmas for C14, second part: what the presorted sweep of `TreeNode::fit` computes.

* masks: the rows of the left / right child are the rows of the node with `value <= split` / not;
* `sortedIndex` is a permutation of the rows, sorted by value;
* `sweepGo_candAt`: every candidate the sweep emits carries the class weights / total weights of the
  rows it has moved so far (`+=` / `-=` bookkeeping), relative to the state it started from;
* `moved_perm_left`: at a candidate, the rows moved so far are exactly the rows with
  `value <= threshold` (sortedness, threshold in `[v, v')`);
* `candidates_spec`: hence the candidate was scored on the partition `fit` then applies;
* `fitNode_noHalf`: with `min_weight_leaf > 0` both sides of an applied split receive rows;
* `NodeIter` (`bfs`) enumerates every node once; `num_leaves`, `max_depth`;
* importances are non-negative and sum to one; class weights add over the children; `prune` keeps
  leaf modes; the fitted tree does not depend on the hash maps' iteration order.
-/
set_option linter.unusedSimpArgs false
set_option linter.unusedSectionVars false
set_option linter.unusedVariables false
namespace LinfaSpec.Tree
open LinfaSpec

section masks
variable {α β : Type}
variable [Add α] [Sub α] [Div α] [Neg α] [LT α] [DecidableLT α] [LE α] [DecidableLE α]
  [OfNat α 0] [NatCast α]
variable [Add β] [Sub β] [Mul β] [Div β] [Neg β] [LT β] [DecidableLT β]
  [OfNat β 0] [OfNat β 1] [NatCast β]

theorem length_leftMask (D : Data α β) (mask : List Bool) (f : Nat) (s : α) :
    (leftMask D mask f s).length = mask.length := by simp [leftMask]

theorem length_rightMask (D : Data α β) (mask : List Bool) (f : Nat) (s : α) :
    (rightMask D mask f s).length = mask.length := by simp [rightMask]

theorem getD_leftMask (D : Data α β) (mask : List Bool) (f : Nat) (s : α) (i : Nat) :
    (leftMask D mask f s).getD i false = (mask.getD i false && decide (D.x i f ≤ s)) := by
  simp only [leftMask, List.getD_eq_getElem?_getD, List.getElem?_map, List.getElem?_zipIdx]
  cases mask[i]? <;> simp

theorem getD_rightMask (D : Data α β) (mask : List Bool) (f : Nat) (s : α) (i : Nat) :
    (rightMask D mask f s).getD i false = (mask.getD i false && !decide (D.x i f ≤ s)) := by
  simp only [rightMask, List.getD_eq_getElem?_getD, List.getElem?_map, List.getElem?_zipIdx]
  cases mask[i]? <;> simp

/-- the rows of the left child are the rows of the node with `value <= split`, in the same order -/
theorem rowsOf_leftMask (D : Data α β) (mask : List Bool) (f : Nat) (s : α) :
    rowsOf (leftMask D mask f s) = (rowsOf mask).filter fun i => decide (D.x i f ≤ s) := by
  simp only [rowsOf, length_leftMask, List.filter_filter]
  refine List.filter_congr fun i _ => ?_
  rw [getD_leftMask, Bool.and_comm]

theorem rowsOf_rightMask (D : Data α β) (mask : List Bool) (f : Nat) (s : α) :
    rowsOf (rightMask D mask f s) = (rowsOf mask).filter fun i => !decide (D.x i f ≤ s) := by
  simp only [rowsOf, length_rightMask, List.filter_filter]
  refine List.filter_congr fun i _ => ?_
  rw [getD_rightMask, Bool.and_comm]

end masks

/-! ### the presorted index -/
section sorted
variable {α : Type} [LinearOrder α]

theorem insSorted_perm (x : Nat × α) : ∀ l : List (Nat × α), (insSorted x l).Perm (x :: l) := by
  intro l
  induction l with
  | nil => simp [insSorted]
  | cons y ys ih =>
    simp only [insSorted]
    split
    · exact List.Perm.refl _
    · exact (List.Perm.cons y ih).trans (List.Perm.swap x y ys)

theorem foldl_insSorted_perm : ∀ (l acc : List (Nat × α)),
    (l.foldl (fun acc x => insSorted x acc) acc).Perm (l ++ acc) := by
  intro l
  induction l with
  | nil => intro acc; simp
  | cons x xs ih =>
    intro acc
    simp only [List.foldl_cons, List.cons_append]
    refine (ih (insSorted x acc)).trans ?_
    refine (List.Perm.append_left xs (insSorted_perm x acc)).trans ?_
    exact List.perm_middle

theorem sortPairs_perm (l : List (Nat × α)) : (sortPairs l).Perm l := by
  have := foldl_insSorted_perm l []
  simpa [sortPairs] using this

/-- non-decreasing in the value -/
def SortedV (l : List (Nat × α)) : Prop := l.Pairwise fun a b => a.2 ≤ b.2

theorem insSorted_sorted (x : Nat × α) : ∀ l : List (Nat × α), SortedV l → SortedV (insSorted x l) := by
  intro l
  induction l with
  | nil => intro _; simp [insSorted, SortedV]
  | cons y ys ih =>
    intro h
    simp only [SortedV, List.pairwise_cons] at h
    obtain ⟨h1, h2⟩ := h
    simp only [insSorted]
    split
    · rename_i hlt
      simp only [SortedV, List.pairwise_cons]
      refine ⟨?_, h1, h2⟩
      intro b hb
      rcases List.mem_cons.mp hb with hb | hb
      · subst hb; exact le_of_lt hlt
      · exact le_trans (le_of_lt hlt) (h1 b hb)
    · rename_i hnlt
      simp only [SortedV, List.pairwise_cons]
      refine ⟨?_, ih h2⟩
      intro b hb
      have := (insSorted_perm x ys).mem_iff.mp hb
      rcases List.mem_cons.mp this with hb' | hb'
      · subst hb'; exact not_lt.mp hnlt
      · exact h1 b hb'

theorem foldl_insSorted_sorted : ∀ (l acc : List (Nat × α)), SortedV acc →
    SortedV (l.foldl (fun acc x => insSorted x acc) acc) := by
  intro l
  induction l with
  | nil => intro acc h; simpa
  | cons x xs ih => intro acc h; exact ih _ (insSorted_sorted x acc h)

theorem sortPairs_sorted (l : List (Nat × α)) : SortedV (sortPairs l) :=
  foldl_insSorted_sorted l [] (by simp [SortedV])

end sorted

section sortedIndex
variable {α β : Type} [Field α] [LinearOrder α] [IsStrictOrderedRing α]
variable [Field β] [LinearOrder β] [IsStrictOrderedRing β]

theorem sortedIndex_perm (D : Data α β) (f : Nat) :
    (sortedIndex D f).Perm ((List.range D.n).map fun i => (i, D.x i f)) := sortPairs_perm _

theorem sortedIndex_sorted (D : Data α β) (f : Nat) : SortedV (sortedIndex D f) := sortPairs_sorted _

theorem sortedIndex_mem (D : Data α β) (f : Nat) (i : Nat) (v : α) :
    (i, v) ∈ sortedIndex D f ↔ i < D.n ∧ v = D.x i f := by
  rw [(sortedIndex_perm D f).mem_iff]
  simp only [List.mem_map, List.mem_range, Prod.mk.injEq]
  constructor
  · rintro ⟨a, ha, rfl, rfl⟩; exact ⟨ha, rfl⟩
  · rintro ⟨h1, h2⟩; exact ⟨i, h1, rfl, h2.symm⟩

theorem sortedIndex_nodup (D : Data α β) (f : Nat) : ((sortedIndex D f).map (·.1)).Nodup := by
  have h := (sortedIndex_perm D f).map (·.1)
  rw [h.nodup_iff]
  simp only [List.map_map]
  have : ((fun x : Nat × α => x.1) ∘ fun i => (i, D.x i f)) = id := by funext i; rfl
  rw [this, List.map_id]
  exact List.nodup_range

end sortedIndex

/-! ### what the sweep computes -/
section sweep
variable {α β : Type} [Field α] [LinearOrder α] [IsStrictOrderedRing α]
variable [Field β] [LinearOrder β] [IsStrictOrderedRing β]

/-- rows of the node among the visited sorted positions, in sweep order -/
def moved (mask : List Bool) (pre : List (Nat × α)) : List Nat :=
  (pre.map (·.1)).filter fun i => mask.getD i false

/-- class weight as a `List.sum` -/
def cwS (D : Data α β) (rows : List Nat) (cl : Nat) : β :=
  ((rows.filter fun i => D.y i == cl).map D.w).sum

/-- total weight of a list of rows -/
def rwS (D : Data α β) (rows : List Nat) : β := (rows.map D.w).sum

theorem sumS_eq_sum' (l : List β) : sumS l = l.sum := by
  unfold sumS
  rw [List.sum_eq_foldl]

theorem classWeight_eq_cwS (D : Data α β) (rows : List Nat) (cl : Nat) :
    classWeight D rows cl = cwS D rows cl := by simp [classWeight, cwS, sumS_eq_sum']

theorem cwS_cons (D : Data α β) (i : Nat) (M : List Nat) (cl : Nat) :
    cwS D (i :: M) cl = (if cl = D.y i then D.w i else 0) + cwS D M cl := by
  unfold cwS
  by_cases h : cl = D.y i
  · subst h; simp
  · have : (D.y i == cl) = false := by simpa using fun h' => h h'.symm
    simp [List.filter_cons, this, h]

theorem rwS_cons (D : Data α β) (i : Nat) (M : List Nat) : rwS D (i :: M) = D.w i + rwS D M := by
  simp [rwS]

theorem getD_addAt (l : List β) (c cl : Nat) (w : β) (hc : c < l.length) :
    (addAt l c w).getD cl 0 = l.getD cl 0 + (if cl = c then w else 0) := by
  simp only [addAt, List.getD_eq_getElem?_getD, List.getElem?_modify]
  by_cases h : cl = c
  · subst h
    simp [List.getElem?_eq_getElem hc]
  · have h' : ¬ c = cl := fun e => h e.symm
    cases l[cl]? <;> simp [h, h']

theorem getD_subAt (l : List β) (c cl : Nat) (w : β) (hc : c < l.length) :
    (subAt l c w).getD cl 0 = l.getD cl 0 - (if cl = c then w else 0) := by
  simp only [subAt, List.getD_eq_getElem?_getD, List.getElem?_modify]
  by_cases h : cl = c
  · subst h
    simp [List.getElem?_eq_getElem hc]
  · have h' : ¬ c = cl := fun e => h e.symm
    cases l[cl]? <;> simp [h, h']

theorem length_addAt (l : List β) (c : Nat) (w : β) : (addAt l c w).length = l.length := by
  simp [addAt]
theorem length_subAt (l : List β) (c : Nat) (w : β) : (subAt l c w).length = l.length := by
  simp [subAt]

/-- what a candidate of the sweep is, relative to the state the sweep was started from -/
def CandAt (P : Params α β) (D : Data α β) (mask : List Bool) (f : Nat) (total : β)
    (fL fR : List β) (wL wR : β) (s : List (Nat × α)) (c : Cand α β) : Prop :=
  ∃ (k i j : Nat) (v v' : α), s[k]? = some (i, v) ∧ s[k + 1]? = some (j, v') ∧
    mask.getD i false = true ∧ ¬ absS (v - v') < P.eps ∧ c.feat = f ∧
    c.split = (if v ≤ (v + v') / ((2 : Nat) : α) ∧ (v + v') / ((2 : Nat) : α) < v' then
      (v + v') / ((2 : Nat) : α) else v) ∧
    (∀ cl, c.fL.getD cl 0 = fL.getD cl 0 + cwS D (moved mask (s.take (k + 1))) cl) ∧
    (∀ cl, c.fR.getD cl 0 = fR.getD cl 0 - cwS D (moved mask (s.take (k + 1))) cl) ∧
    c.wL = wL + rwS D (moved mask (s.take (k + 1))) ∧
    c.wR = wR - rwS D (moved mask (s.take (k + 1))) ∧
    c.score = c.wR / total * impurity P (inLabelOrder D c.fR) +
      (1 - c.wR / total) * impurity P (inLabelOrder D c.fL) ∧
    ¬ c.wR < P.minLeaf ∧ ¬ c.wL < P.minLeaf

theorem candAt_shift_masked (P : Params α β) (D : Data α β) (mask : List Bool) (f : Nat) (total : β)
    (fL fR : List β) (wL wR : β) (i : Nat) (v : α) (tl : List (Nat × α)) (c : Cand α β)
    (hm : mask.getD i false = true) (hL : D.y i < fL.length) (hR : D.y i < fR.length)
    (h : CandAt P D mask f total (addAt fL (D.y i) (D.w i)) (subAt fR (D.y i) (D.w i))
      (wL + D.w i) (wR - D.w i) tl c) :
    CandAt P D mask f total fL fR wL wR ((i, v) :: tl) c := by
  obtain ⟨k, i', j, u, u', h1, h2, h3, h4, h5, h6, h7, h8, h9, h10, h11, h12⟩ := h
  have hmv : moved mask (((i, v) :: tl).take (k + 1 + 1)) = i :: moved mask (tl.take (k + 1)) := by
    simp only [moved, List.take_succ_cons, List.map_cons, List.filter_cons, hm, if_true]
  refine ⟨k + 1, i', j, u, u', by simpa using h1, by simpa using h2, h3, h4, h5, h6, ?_, ?_, ?_, ?_, h11, h12⟩
  · intro cl
    rw [h7 cl, hmv, cwS_cons, getD_addAt _ _ _ _ hL, add_assoc]
  · intro cl
    rw [h8 cl, hmv, cwS_cons, getD_subAt _ _ _ _ hR, sub_sub]
  · rw [h9, hmv, rwS_cons, add_assoc]
  · rw [h10, hmv, rwS_cons, sub_sub]

theorem candAt_shift_unmasked (P : Params α β) (D : Data α β) (mask : List Bool) (f : Nat) (total : β)
    (fL fR : List β) (wL wR : β) (i : Nat) (v : α) (tl : List (Nat × α)) (c : Cand α β)
    (hm : ¬ mask.getD i false = true)
    (h : CandAt P D mask f total fL fR wL wR tl c) :
    CandAt P D mask f total fL fR wL wR ((i, v) :: tl) c := by
  obtain ⟨k, i', j, u, u', h1, h2, h3, h4, h5, h6, h7, h8, h9, h10, h11, h12⟩ := h
  have hmv : moved mask (((i, v) :: tl).take (k + 1 + 1)) = moved mask (tl.take (k + 1)) := by
    simp only [moved, List.take_succ_cons, List.map_cons, List.filter_cons, hm, if_false, Bool.false_eq_true]
  refine ⟨k + 1, i', j, u, u', by simpa using h1, by simpa using h2, h3, h4, h5, h6, ?_, ?_, ?_, ?_, h11, h12⟩
  · intro cl; rw [h7 cl, hmv]
  · intro cl; rw [h8 cl, hmv]
  · rw [h9, hmv]
  · rw [h10, hmv]

/-- every candidate the sweep emits is a `CandAt` of the state it was started from -/
theorem sweepGo_candAt (P : Params α β) (D : Data α β) (mask : List Bool) (f : Nat) (total : β) :
    ∀ (s : List (Nat × α)) (fL fR : List β) (wL wR : β) (c : Cand α β),
      (∀ r, D.y r < fL.length) → (∀ r, D.y r < fR.length) →
      c ∈ sweepGo P D mask f total fL fR wL wR s → CandAt P D mask f total fL fR wL wR s c := by
  intro s
  induction s with
  | nil => intro fL fR wL wR c _ _ hc; simp [sweepGo] at hc
  | cons x xs ih =>
    intro fL fR wL wR c hL hR hc
    cases xs with
    | nil => simp [sweepGo] at hc
    | cons y ys =>
      obtain ⟨i, v⟩ := x
      obtain ⟨j, v'⟩ := y
      unfold sweepGo at hc
      split at hc
      · rename_i hm
        have hL' : ∀ r, D.y r < (addAt fL (D.y i) (D.w i)).length := by
          intro r; rw [length_addAt]; exact hL r
        have hR' : ∀ r, D.y r < (subAt fR (D.y i) (D.w i)).length := by
          intro r; rw [length_subAt]; exact hR r
        simp only at hc
        split at hc
        · exact candAt_shift_masked P D mask f total fL fR wL wR i v _ c hm (hL i) (hR i)
            (ih _ _ _ _ c hL' hR' hc)
        · rename_i heps
          split at hc
          · exact candAt_shift_masked P D mask f total fL fR wL wR i v _ c hm (hL i) (hR i)
              (ih _ _ _ _ c hL' hR' hc)
          · rename_i hml
            rcases List.mem_cons.mp hc with hc | hc
            · subst hc
              refine ⟨0, i, j, v, v', rfl, rfl, hm, (not_or.mp heps).2, rfl, rfl, ?_, ?_, ?_, ?_, rfl,
                (not_or.mp hml).1, (not_or.mp hml).2⟩
              · intro cl
                simp only [moved, List.take_succ_cons, List.take_zero, List.map_cons, List.map_nil,
                  List.filter_cons, hm, if_true, List.filter_nil]
                rw [cwS_cons, getD_addAt _ _ _ _ (hL i)]
                simp [cwS]
              · intro cl
                simp only [moved, List.take_succ_cons, List.take_zero, List.map_cons, List.map_nil,
                  List.filter_cons, hm, if_true, List.filter_nil]
                rw [cwS_cons, getD_subAt _ _ _ _ (hR i)]
                simp [cwS]
              · simp only [moved, List.take_succ_cons, List.take_zero, List.map_cons, List.map_nil,
                  List.filter_cons, hm, if_true, List.filter_nil, rwS, List.sum_cons, List.sum_nil, add_zero]
              · simp only [moved, List.take_succ_cons, List.take_zero, List.map_cons, List.map_nil,
                  List.filter_cons, hm, if_true, List.filter_nil, rwS, List.sum_cons, List.sum_nil, add_zero]
            · exact candAt_shift_masked P D mask f total fL fR wL wR i v _ c hm (hL i) (hR i)
                (ih _ _ _ _ c hL' hR' hc)
      · rename_i hm
        exact candAt_shift_unmasked P D mask f total fL fR wL wR i v _ c hm (ih _ _ _ _ c hL hR hc)

end sweep

/-! ### the sweep's running sets are the sides of the applied split -/
section identify
variable {α β : Type} [Field α] [LinearOrder α] [IsStrictOrderedRing α]
variable [Field β] [LinearOrder β] [IsStrictOrderedRing β]

theorem sortedV_le (s : List (Nat × α)) (hs : SortedV s) (a b : Nat) (hab : a ≤ b) (hb : b < s.length) :
    (s[a]'(lt_of_le_of_lt hab hb)).2 ≤ (s[b]).2 := by
  rcases Nat.eq_or_lt_of_le hab with h | h
  · subst h; exact le_refl _
  · exact (List.pairwise_iff_getElem.mp hs) a b _ hb h

/-- two consecutive sorted values that the equal-value skip lets through are strictly increasing,
and the threshold (midpoint, or the lower value) separates them -/
theorem threshold_between (eps v v' : α) (heps : 0 < eps) (hle : v ≤ v') (hskip : ¬ absS (v - v') < eps) :
    v ≤ (if v ≤ (v + v') / ((2 : Nat) : α) ∧ (v + v') / ((2 : Nat) : α) < v' then
      (v + v') / ((2 : Nat) : α) else v) ∧
    (if v ≤ (v + v') / ((2 : Nat) : α) ∧ (v + v') / ((2 : Nat) : α) < v' then
      (v + v') / ((2 : Nat) : α) else v) < v' := by
  have hne : v ≠ v' := by
    intro h
    apply hskip
    subst h
    simp [absS, heps]
  have hlt : v < v' := lt_of_le_of_ne hle hne
  have h2 : (((2 : Nat) : α)) = 2 := by norm_cast
  rw [h2]
  split
  · rename_i h
    exact ⟨h.1, h.2⟩
  · exact ⟨le_refl _, hlt⟩

theorem mem_rowsOf (mask : List Bool) (r : Nat) :
    r ∈ rowsOf mask ↔ r < mask.length ∧ mask.getD r false = true := by
  simp [rowsOf]

/-- the rows the sweep has moved left when it evaluates the candidate at sorted position `k` are
exactly the rows of the node with `value <= threshold` -/
theorem moved_perm_left (D : Data α β) (mask : List Bool) (f : Nat) (hlen : mask.length = D.n)
    (k i j : Nat) (v v' split : α)
    (hk : (sortedIndex D f)[k]? = some (i, v)) (hk1 : (sortedIndex D f)[k + 1]? = some (j, v'))
    (h1 : v ≤ split) (h2 : split < v') :
    (moved mask ((sortedIndex D f).take (k + 1))).Perm (rowsOf (leftMask D mask f split)) := by
  have hs := sortedIndex_sorted D f
  have hk1' : k + 1 < (sortedIndex D f).length := by
    by_contra h
    rw [List.getElem?_eq_none (not_lt.mp h)] at hk1
    simp at hk1
  have hkv : ((sortedIndex D f)[k]'(by omega)) = (i, v) := by
    have := List.getElem?_eq_getElem (l := sortedIndex D f) (i := k) (by omega)
    rw [this] at hk; simpa using hk
  have hk1v : ((sortedIndex D f)[k + 1]'hk1') = (j, v') := by
    have := List.getElem?_eq_getElem (l := sortedIndex D f) (i := k + 1) hk1'
    rw [this] at hk1; simpa using hk1
  refine (List.perm_ext_iff_of_nodup ?_ ?_).mpr ?_
  · -- moved is nodup
    unfold moved
    refine List.Nodup.sublist List.filter_sublist ?_
    have hsub : ((sortedIndex D f).take (k + 1)).map (·.1) = ((sortedIndex D f).map (·.1)).take (k + 1) := by
      rw [List.map_take]
    rw [hsub]
    exact (sortedIndex_nodup D f).sublist (List.take_sublist _ _)
  · unfold rowsOf
    exact List.Nodup.sublist List.filter_sublist List.nodup_range
  · intro r
    rw [rowsOf_leftMask, List.mem_filter, mem_rowsOf]
    constructor
    · intro hr
      simp only [moved, List.mem_filter, List.mem_map] at hr
      obtain ⟨⟨⟨r', u⟩, hmem, hr'⟩, hmask⟩ := hr
      simp only at hr'
      subst hr'
      obtain ⟨q, hq, hqv⟩ := List.mem_take_iff_getElem.mp hmem
      have hq' : q ≤ k := by
        have := Nat.lt_of_lt_of_le hq (Nat.min_le_left _ _)
        omega
      have hmem' : (r', u) ∈ sortedIndex D f := List.mem_of_mem_take hmem
      obtain ⟨hrn, hu⟩ := (sortedIndex_mem D f r' u).mp hmem'
      have hle := sortedV_le _ hs q k hq' (by omega)
      rw [hkv, hqv] at hle
      simp only at hle
      refine ⟨⟨by omega, hmask⟩, ?_⟩
      simp only [decide_eq_true_eq]
      rw [← hu]
      exact le_trans hle h1
    · rintro ⟨⟨hrl, hmask⟩, hx⟩
      simp only [decide_eq_true_eq] at hx
      have hmem : (r, D.x r f) ∈ sortedIndex D f := (sortedIndex_mem D f r _).mpr ⟨by omega, rfl⟩
      obtain ⟨q, hq, hqv⟩ := List.mem_iff_getElem.mp hmem
      have hqk : q ≤ k := by
        by_contra hcon
        have hle := sortedV_le _ hs (k + 1) q (by omega) hq
        rw [hk1v, hqv] at hle
        simp only at hle
        exact absurd (lt_of_le_of_lt (le_trans hle hx) h2) (lt_irrefl _)
      simp only [moved, List.mem_filter, List.mem_map]
      refine ⟨⟨(r, D.x r f), ?_, rfl⟩, hmask⟩
      exact List.mem_take_iff_getElem.mpr ⟨q, by simp only [Nat.lt_min]; omega, hqv⟩

/-- total weight of the rows, over all classes, is the sum of the class weights -/
theorem sum_range_ite (K y : Nat) (w : β) (hy : y < K) :
    ((List.range K).map fun cl => if cl = y then w else 0).sum = w := by
  induction K with
  | zero => omega
  | succ K ih =>
    rw [List.range_succ, List.map_append, List.sum_append]
    by_cases h : y < K
    · rw [ih h]
      have : ¬ K = y := by omega
      simp [this]
    · have hyK : y = K := by omega
      subst hyK
      have : ((List.range y).map fun cl => if cl = y then w else (0 : β)) = (List.range y).map fun _ => 0 := by
        refine List.map_congr_left fun cl hcl => ?_
        have : cl ≠ y := by have := List.mem_range.mp hcl; omega
        simp [this]
      rw [this]
      simp

theorem sum_cwS (D : Data α β) (hK : ∀ r, D.y r < D.K) (rows : List Nat) :
    ((List.range D.K).map fun cl => cwS D rows cl).sum = rwS D rows := by
  induction rows with
  | nil => simp [cwS, rwS]
  | cons r rs ih =>
    have : (fun cl => cwS D (r :: rs) cl) = fun cl => (if cl = D.y r then D.w r else 0) + cwS D rs cl := by
      funext cl; exact cwS_cons D r rs cl
    rw [this, List.sum_map_add, sum_range_ite _ _ _ (hK r), ih, rwS_cons]

theorem getD_freqOf (D : Data α β) (rows : List Nat) (cl : Nat) :
    (freqOf D rows).getD cl 0 = if cl < D.K then cwS D rows cl else 0 := by
  simp only [freqOf, List.getD_eq_getElem?_getD, List.getElem?_map]
  by_cases h : cl < D.K
  · simp [List.getElem?_range h, h, classWeight_eq_cwS]
  · have : (List.range D.K)[cl]? = none := by
      rw [List.getElem?_eq_none]; simp; omega
    simp [this, h]

theorem cwS_absent (D : Data α β) (hK : ∀ r, D.y r < D.K) (rows : List Nat) (cl : Nat) (h : ¬ cl < D.K) :
    cwS D rows cl = 0 := by
  have : (rows.filter fun i => D.y i == cl) = [] := by
    rw [List.filter_eq_nil_iff]
    intro i _
    have := hK i
    simp; omega
  simp [cwS, this]

theorem cwS_perm (D : Data α β) {r1 r2 : List Nat} (h : r1.Perm r2) (cl : Nat) : cwS D r1 cl = cwS D r2 cl :=
  ((h.filter _).map _).sum_eq

theorem rwS_perm (D : Data α β) {r1 r2 : List Nat} (h : r1.Perm r2) : rwS D r1 = rwS D r2 :=
  (h.map _).sum_eq

theorem sum_filter_split (l : List Nat) (w : Nat → β) (q : Nat → Bool) :
    (l.map w).sum = ((l.filter q).map w).sum + ((l.filter fun i => !q i).map w).sum := by
  induction l with
  | nil => simp
  | cons x xs ih =>
    by_cases hq : q x = true
    · simp only [List.map_cons, List.sum_cons, List.filter_cons, hq, if_true, Bool.not_true,
        Bool.false_eq_true, if_false, ih, add_assoc]
    · simp only [Bool.not_eq_true] at hq
      simp only [List.map_cons, List.sum_cons, List.filter_cons, hq, Bool.false_eq_true, if_false,
        Bool.not_false, if_true, ih]
      rw [add_left_comm]

theorem cwS_split (D : Data α β) (mask : List Bool) (f : Nat) (s : α) (cl : Nat) :
    cwS D (rowsOf mask) cl =
      cwS D (rowsOf (leftMask D mask f s)) cl + cwS D (rowsOf (rightMask D mask f s)) cl := by
  simp only [cwS, rowsOf_leftMask, rowsOf_rightMask]
  rw [sum_filter_split ((rowsOf mask).filter fun i => D.y i == cl) D.w (fun i => decide (D.x i f ≤ s))]
  simp only [List.filter_filter, Bool.and_comm]

theorem rwS_split (D : Data α β) (mask : List Bool) (f : Nat) (s : α) :
    rwS D (rowsOf mask) = rwS D (rowsOf (leftMask D mask f s)) + rwS D (rowsOf (rightMask D mask f s)) := by
  simp only [rwS, rowsOf_leftMask, rowsOf_rightMask]
  exact sum_filter_split _ _ _

/-- `total_weight` (sum of the class map in label order) is the weight of the node's rows -/
theorem total_eq_rwS (D : Data α β) (hK : ∀ r, D.y r < D.K) (hlord : D.lord.Perm (List.range D.K))
    (rows : List Nat) : sumS (inLabelOrder D (freqOf D rows)) = rwS D rows := by
  rw [sumS_eq_sum', inLabelOrder, (hlord.map _).sum_eq, ← sum_cwS D hK rows]
  congr 1
  refine List.map_congr_left fun cl hcl => ?_
  rw [getD_freqOf, if_pos (List.mem_range.mp hcl)]

theorem pickBest_mem (cs : List (Cand α β)) (b : Cand α β) (h : pickBest cs = some b) : b ∈ cs := by
  unfold pickBest at h
  have : ∀ (l : List (Cand α β)) (acc : Option (Cand α β)),
      l.foldl (fun best c => match best with
        | none => some c
        | some b => if c.score < b.score then some c else some b) acc = some b →
      b ∈ l ∨ acc = some b := by
    intro l
    induction l with
    | nil => intro acc h; exact Or.inr h
    | cons x xs ih =>
      intro acc h
      simp only [List.foldl_cons] at h
      rcases ih _ h with h' | h'
      · exact Or.inl (List.mem_cons_of_mem _ h')
      · cases acc with
        | none => simp only [Option.some.injEq] at h'; subst h'; exact Or.inl (by simp)
        | some a =>
          simp only at h'
          split at h'
          · simp only [Option.some.injEq] at h'; subst h'; exact Or.inl (by simp)
          · exact Or.inr h'
  rcases this cs none h with h' | h'
  · exact h'
  · simp at h'

/-- the applied split of a candidate, in terms of the training rows -/
structure CandSpec (P : Params α β) (D : Data α β) (mask : List Bool) (p : Nat) (c : Cand α β) : Prop where
  feat_lt : c.feat < p
  fL : inLabelOrder D c.fL = inLabelOrder D (freqOf D (rowsOf (leftMask D mask c.feat c.split)))
  fR : inLabelOrder D c.fR = inLabelOrder D (freqOf D (rowsOf (rightMask D mask c.feat c.split)))
  wL : c.wL = rwS D (rowsOf (leftMask D mask c.feat c.split))
  wR : c.wR = rwS D (rowsOf (rightMask D mask c.feat c.split))
  score : c.score = c.wR / rwS D (rowsOf mask) * impurity P (inLabelOrder D c.fR) +
      (1 - c.wR / rwS D (rowsOf mask)) * impurity P (inLabelOrder D c.fL)
  minL : ¬ c.wL < P.minLeaf
  minR : ¬ c.wR < P.minLeaf

/-- **every split the sweep evaluates is scored on the partition that `fit` then applies**: the
running left/right class weights and totals of the candidate are those of the rows with
`value <= threshold` / `value > threshold` -/
theorem candidates_spec (P : Params α β) (D : Data α β) (mask : List Bool) (p : Nat)
    (heps : 0 < P.eps) (hK : ∀ r, D.y r < D.K) (hlord : D.lord.Perm (List.range D.K))
    (hlen : mask.length = D.n) (c : Cand α β)
    (hc : c ∈ candidates P D (sortedAll D p) mask (freqOf D (rowsOf mask))) :
    CandSpec P D mask p c := by
  simp only [candidates, List.mem_flatMap] at hc
  obtain ⟨⟨s, f⟩, hsf, hc⟩ := hc
  simp only at hc
  have hsf' := List.mem_zipIdx_iff_getElem?.mp hsf
  simp only [sortedAll, List.getElem?_map] at hsf'
  have hfp : f < p := by
    by_contra h
    rw [List.getElem?_eq_none (by simp; omega)] at hsf'
    simp at hsf'
  rw [List.getElem?_range hfp] at hsf'
  simp only [Option.map_some, Option.some.injEq] at hsf'
  subst hsf'
  have hlenf : (freqOf D (rowsOf mask)).length = D.K := by simp [freqOf]
  obtain ⟨k, i, j, v, v', h1, h2, h3, h4, h5, h6, h7, h8, h9, h10, h11, h12, h13⟩ :=
    sweepGo_candAt P D mask f _ _ _ _ _ _ c
      (by intro r; simp only [List.length_map, hlenf]; exact hK r)
      (by intro r; rw [hlenf]; exact hK r) hc
  subst h5
  -- the two values are consecutive sorted values
  have hk1' : k + 1 < (sortedIndex D c.feat).length := by
    by_contra h
    rw [List.getElem?_eq_none (not_lt.mp h)] at h2
    simp at h2
  have hle : v ≤ v' := by
    have := sortedV_le _ (sortedIndex_sorted D c.feat) k (k + 1) (by omega) hk1'
    rw [List.getElem?_eq_getElem (by omega)] at h1
    rw [List.getElem?_eq_getElem hk1'] at h2
    simp only [Option.some.injEq] at h1 h2
    rw [h1, h2] at this
    exact this
  obtain ⟨hb1, hb2⟩ := threshold_between P.eps v v' heps hle h4
  rw [← h6] at hb1 hb2
  have hperm := moved_perm_left D mask c.feat hlen k i j v v' c.split h1 h2 hb1 hb2
  have hfLget : ∀ cl, c.fL.getD cl 0 = (freqOf D (rowsOf (leftMask D mask c.feat c.split))).getD cl 0 := by
    intro cl
    rw [h7 cl, getD_freqOf, cwS_perm D hperm cl]
    have hz : ((freqOf D (rowsOf mask)).map fun _ => (0 : β)).getD cl 0 = 0 := by
      simp only [List.getD_eq_getElem?_getD, List.getElem?_map]
      cases (freqOf D (rowsOf mask))[cl]? <;> simp
    rw [hz, zero_add]
    by_cases hcl : cl < D.K
    · rw [if_pos hcl]
    · rw [if_neg hcl]; exact cwS_absent D hK _ cl hcl
  have hfRget : ∀ cl, c.fR.getD cl 0 = (freqOf D (rowsOf (rightMask D mask c.feat c.split))).getD cl 0 := by
    intro cl
    rw [h8 cl, getD_freqOf, getD_freqOf, cwS_perm D hperm cl]
    by_cases hcl : cl < D.K
    · rw [if_pos hcl, if_pos hcl, cwS_split D mask c.feat c.split cl]; ring
    · rw [if_neg hcl, if_neg hcl, cwS_absent D hK _ cl hcl]; ring
  have htot := total_eq_rwS D hK hlord (rowsOf mask)
  have hwL : c.wL = rwS D (rowsOf (leftMask D mask c.feat c.split)) := by
    rw [h9, zero_add]; exact rwS_perm D hperm
  have hwR : c.wR = rwS D (rowsOf (rightMask D mask c.feat c.split)) := by
    rw [h10, htot, rwS_perm D hperm, rwS_split D mask c.feat c.split]; ring
  refine ⟨hfp, ?_, ?_, hwL, hwR, ?_, h13, h12⟩
  · exact List.map_congr_left fun cl _ => hfLget cl
  · exact List.map_congr_left fun cl _ => hfRget cl
  · rw [← htot]; exact h11

end identify

section nodes
variable {α : Type}

/-- every node of the tree (preorder), the set `NodeIter` has to enumerate -/
def allNodes : Tree α → List (Tree α)
  | .leaf p d => [.leaf p d]
  | .node f s dec p d l r => .node f s dec p d l r :: (allNodes l ++ allNodes r)
  | .half f s dec p d il c => .half f s dec p d il c :: allNodes c

theorem allNodes_eq (t : Tree α) : allNodes t = t :: t.children.flatMap allNodes := by
  cases t <;> simp [allNodes, Tree.children]

theorem size_eq (t : Tree α) : t.size = 1 + (t.children.map Tree.size).sum := by
  cases t <;> simp [Tree.size, Tree.children, Nat.add_assoc]

theorem size_pos (t : Tree α) : 0 < t.size := by
  rw [size_eq]; omega

/-- `NodeIter` with enough fuel enumerates exactly the nodes of the queued trees -/
theorem bfs_perm : ∀ (fuel : Nat) (q : List (Tree α)), (q.map Tree.size).sum ≤ fuel →
    (bfs fuel q).Perm (q.flatMap allNodes) := by
  intro fuel
  induction fuel with
  | zero =>
    intro q h
    cases q with
    | nil => simp [bfs]
    | cons t q =>
      have := size_pos t
      simp only [List.map_cons, List.sum_cons] at h
      omega
  | succ fuel ih =>
    intro q h
    cases q with
    | nil => simp [bfs]
    | cons t q =>
      have hs := size_eq t
      simp only [List.map_cons, List.sum_cons] at h
      have h' : ((q ++ t.children).map Tree.size).sum ≤ fuel := by
        simp only [List.map_append, List.sum_append]
        omega
      have := ih (q ++ t.children) h'
      simp only [bfs, List.flatMap_cons]
      rw [allNodes_eq t]
      simp only [List.cons_append]
      refine List.Perm.cons t ?_
      refine this.trans ?_
      rw [List.flatMap_append]
      exact List.perm_append_comm

theorem iterNodes_perm (t : Tree α) : (iterNodes t).Perm (allNodes t) := by
  have := bfs_perm t.size [t] (by simp)
  simpa [iterNodes] using this

/-- number of leaf-flagged nodes -/
def leafCount : Tree α → Nat
  | .leaf _ _ => 1
  | .node _ _ _ _ _ l r => leafCount l + leafCount r
  | .half _ _ _ _ _ _ c => 1 + leafCount c

theorem countP_allNodes (t : Tree α) : (allNodes t).countP Tree.isLeafFlag = leafCount t := by
  induction t with
  | leaf p d => simp [allNodes, leafCount, Tree.isLeafFlag]
  | node f s dec p d l r ihl ihr =>
    simp [allNodes, leafCount, Tree.isLeafFlag, List.countP_cons, List.countP_append, ihl, ihr]
  | half f s dec p d il c ih =>
    simp [allNodes, leafCount, Tree.isLeafFlag, List.countP_cons, ih]; omega

/-- `num_leaves()` is the number of leaf-flagged nodes of the tree -/
theorem numLeaves_eq (t : Tree α) : numLeaves t = leafCount t := by
  unfold numLeaves
  rw [← List.countP_eq_length_filter, (iterNodes_perm t).countP_eq, countP_allNodes]

theorem foldl_max_le (l : List (Tree α)) (a m : Nat) (ha : a ≤ m)
    (h : ∀ n ∈ l, n.depthField ≤ m) :
    l.foldl (fun m n => Nat.max m n.depthField) a ≤ m := by
  induction l generalizing a with
  | nil => simpa
  | cons x xs ih =>
    simp only [List.foldl_cons]
    refine ih _ ?_ (fun n hn => h n (List.mem_cons_of_mem _ hn))
    exact Nat.max_le.mpr ⟨ha, h x (by simp)⟩

theorem le_foldl_max (l : List (Tree α)) (a : Nat) :
    a ≤ l.foldl (fun m n => Nat.max m n.depthField) a ∧
    ∀ n ∈ l, n.depthField ≤ l.foldl (fun m n => Nat.max m n.depthField) a := by
  induction l generalizing a with
  | nil => simp
  | cons x xs ih =>
    simp only [List.foldl_cons]
    obtain ⟨h1, h2⟩ := ih (Nat.max a x.depthField)
    refine ⟨le_trans (Nat.le_max_left _ _) h1, ?_⟩
    intro n hn
    rcases List.mem_cons.mp hn with hn | hn
    · subst hn; exact le_trans (Nat.le_max_right _ _) h1
    · exact h2 n hn

/-- `max_depth()` is an upper bound of every node's depth field … -/
theorem depth_le_maxDepthOf (t : Tree α) : ∀ n ∈ allNodes t, n.depthField ≤ maxDepthOf t := by
  intro n hn
  exact (le_foldl_max (iterNodes t) 0).2 n ((iterNodes_perm t).mem_iff.mpr hn)

/-- … and the least one: it is below every bound of the depth fields -/
theorem maxDepthOf_le (t : Tree α) (m : Nat) (h : ∀ n ∈ allNodes t, n.depthField ≤ m) :
    maxDepthOf t ≤ m :=
  foldl_max_le (iterNodes t) 0 m (Nat.zero_le _) (fun n hn => h n ((iterNodes_perm t).mem_iff.mp hn))

theorem depthOK_allNodes (md : Option Nat) (m : Nat) (hm : md = some m) :
    ∀ (t : Tree α) (d : Nat), DepthOK md d t → ∀ n ∈ allNodes t, n.depthField ≤ m := by
  intro t
  induction t with
  | leaf p d' =>
    intro d h n hn
    simp only [allNodes, List.mem_singleton] at hn
    subst hn
    obtain ⟨h1, h2⟩ := h
    simp only [Tree.depthField]
    rw [h1]; exact h2 m hm
  | node f s dec p d' l r ihl ihr =>
    intro d h n hn
    obtain ⟨h0, h1, h2, h3⟩ := h
    simp only [allNodes, List.mem_cons, List.mem_append] at hn
    rcases hn with hn | hn | hn
    · subst hn; simp only [Tree.depthField]; rw [h0]; exact Nat.le_of_lt (h1 m hm)
    · exact ihl _ h2 n hn
    · exact ihr _ h3 n hn
  | half f s dec p d' il c ih =>
    intro d h n hn
    obtain ⟨h0, h1, h2⟩ := h
    simp only [allNodes, List.mem_cons] at hn
    rcases hn with hn | hn
    · subst hn; simp only [Tree.depthField]; rw [h0]; exact Nat.le_of_lt (h1 m hm)
    · exact ih _ h2 n hn

end nodes

/-! ### feature importances -/

section importance
variable {α : Type} [Field α] [LinearOrder α] [IsStrictOrderedRing α]

theorem sumS_eq_sum (l : List α) : sumS l = l.sum := by
  unfold sumS
  rw [List.sum_eq_foldl]

theorem sum_map_div (l : List α) (c : α) : (l.map fun x => x / c).sum = l.sum / c := by
  induction l with
  | nil => simp
  | cons x xs ih => simp only [List.map_cons, List.sum_cons, ih, add_div]

/-- the importances are non-negative and sum to one as soon as the root is a split, every split
node's decrease is at least `ε > 0` and every split feature is a column index -/
theorem importances_spec (t : Tree α) (p : Nat) (ε : α) (hε : 0 < ε)
    (hdec : ∀ n ∈ allNodes t, ∀ f s dec pr d l r, n = Tree.node f s dec pr d l r → ε ≤ dec ∧ f < p)
    (hsplit : ∃ f s dec pr d l r, t = Tree.node f s dec pr d l r) :
    (∀ x ∈ importances t p, 0 ≤ x) ∧ sumS (importances t p) = 1 := by
  -- facts about the list of (feature, decrease) pairs
  have hsd : ∀ fd ∈ splitDecs t, ε ≤ fd.2 ∧ fd.1 < p := by
    intro fd hfd
    simp only [splitDecs, List.mem_filterMap] at hfd
    obtain ⟨n, hn, hfd⟩ := hfd
    have hn' := (iterNodes_perm t).mem_iff.mp hn
    cases n with
    | leaf p' d' => simp at hfd
    | half f s dec pr d il c => simp at hfd
    | node f s dec pr d l r =>
      simp only [Option.some.injEq] at hfd
      subst hfd
      exact hdec _ hn' f s dec pr d l r rfl
  obtain ⟨f0, s0, dec0, pr0, d0, l0, r0, ht⟩ := hsplit
  have hroot : (f0, dec0) ∈ splitDecs t := by
    simp only [splitDecs, List.mem_filterMap]
    refine ⟨t, (iterNodes_perm t).mem_iff.mpr ?_, by rw [ht]⟩
    rw [allNodes_eq]; simp
  -- the mean decrease of one feature
  let g : Nat → α := fun f =>
    let ds := ((splitDecs t).filter fun fd => fd.1 == f).map (·.2)
    if ds.length = 0 then 0 else sumS ds / ((ds.length : Nat) : α)
  have hm : meanDecrease t p = (List.range p).map g := rfl
  have hds_pos : ∀ f, ∀ x ∈ ((splitDecs t).filter fun fd => fd.1 == f).map (·.2), 0 < x := by
    intro f x hx
    simp only [List.mem_map, List.mem_filter] at hx
    obtain ⟨fd, ⟨hfd, _⟩, rfl⟩ := hx
    exact lt_of_lt_of_le hε (hsd fd hfd).1
  have hg_nonneg : ∀ f, 0 ≤ g f := by
    intro f
    simp only [g]
    split
    · exact le_refl _
    · rename_i hne
      rw [sumS_eq_sum]
      refine div_nonneg (List.sum_nonneg fun x hx => le_of_lt (hds_pos f x hx)) ?_
      exact Nat.cast_nonneg _
  have hg_pos : 0 < g f0 := by
    simp only [g]
    have hmem : dec0 ∈ ((splitDecs t).filter fun fd => fd.1 == f0).map (·.2) := by
      simp only [List.mem_map, List.mem_filter]
      exact ⟨(f0, dec0), ⟨hroot, by simp⟩, rfl⟩
    have hlen : (((splitDecs t).filter fun fd => fd.1 == f0).map (·.2)).length ≠ 0 := by
      intro h0
      rw [List.length_eq_zero_iff] at h0
      rw [h0] at hmem
      simp at hmem
    rw [if_neg hlen, sumS_eq_sum]
    refine div_pos ?_ (by exact_mod_cast Nat.pos_of_ne_zero hlen)
    have h1 : dec0 ≤ (((splitDecs t).filter fun fd => fd.1 == f0).map (·.2)).sum :=
      List.single_le_sum (fun x hx => le_of_lt (hds_pos f0 x hx)) _ hmem
    exact lt_of_lt_of_le (hds_pos f0 dec0 hmem) h1
  have hf0 : f0 < p := (hsd _ hroot).2
  have hsum_pos : 0 < (meanDecrease t p).sum := by
    rw [hm]
    have hmem : g f0 ∈ (List.range p).map g := List.mem_map.mpr ⟨f0, List.mem_range.mpr hf0, rfl⟩
    have : g f0 ≤ ((List.range p).map g).sum :=
      List.single_le_sum (fun x hx => by
        obtain ⟨f, _, rfl⟩ := List.mem_map.mp hx
        exact hg_nonneg f) _ hmem
    exact lt_of_lt_of_le hg_pos this
  constructor
  · intro x hx
    simp only [importances, List.mem_map] at hx
    obtain ⟨y, hy, rfl⟩ := hx
    rw [sumS_eq_sum]
    refine div_nonneg ?_ (le_of_lt hsum_pos)
    rw [hm] at hy
    obtain ⟨f, _, rfl⟩ := List.mem_map.mp hy
    exact hg_nonneg f
  · simp only [importances]
    rw [sumS_eq_sum, sumS_eq_sum]
    have : ((meanDecrease t p).map fun x => x / (meanDecrease t p).sum).sum =
        (meanDecrease t p).sum / (meanDecrease t p).sum := by
      exact sum_map_div _ _
    rw [this]
    exact div_self (ne_of_gt hsum_pos)

end importance
section additive
variable {α β : Type}
variable [Add α] [Sub α] [Div α] [Neg α] [LT α] [DecidableLT α] [LE α] [DecidableLE α]
  [OfNat α 0] [NatCast α]
variable [Field β] [LinearOrder β] [IsStrictOrderedRing β]

/-- **class weights add up over the two children**: the weight of class `c` among the rows of a
node is the sum of its weights among the rows sent left and the rows sent right -/
theorem classWeight_split (D : Data α β) (mask : List Bool) (f : Nat) (s : α) (c : Nat) :
    classWeight D (rowsOf mask) c =
      classWeight D (rowsOf (leftMask D mask f s)) c + classWeight D (rowsOf (rightMask D mask f s)) c := by
  simp only [classWeight, sumS_eq_sum', rowsOf_leftMask, rowsOf_rightMask]
  rw [sum_filter_split ((rowsOf mask).filter fun i => D.y i == c) D.w (fun i => decide (D.x i f ≤ s))]
  simp only [List.filter_filter, Bool.and_comm]

theorem classWeight_nonneg (D : Data α β) (hw : ∀ i, 0 ≤ D.w i) (rows : List Nat) (c : Nat) :
    0 ≤ classWeight D rows c := by
  simp only [classWeight, sumS_eq_sum']
  refine List.sum_nonneg fun x hx => ?_
  obtain ⟨i, _, rfl⟩ := List.mem_map.mp hx
  exact hw i

theorem classWeight_absent (D : Data α β) (rows : List Nat) (c : Nat)
    (h : ∀ i ∈ rows, D.y i ≠ c) : classWeight D rows c = 0 := by
  have : (rows.filter fun i => D.y i == c) = [] := by
    rw [List.filter_eq_nil_iff]
    intro i hi
    simpa using h i hi
  simp [classWeight, this, sumS]

/-- "`pred` is a weighted most frequent label among the rows of `m`, and occurs among them" -/
def IsMode (D : Data α β) (m : List Bool) (pred : Nat) : Prop :=
  (∃ i ∈ rowsOf m, D.y i = pred) ∧ ∀ c, classWeight D (rowsOf m) c ≤ classWeight D (rowsOf m) pred

theorem isMode_merge (D : Data α β) (mask : List Bool) (f : Nat) (s : α) (x : Nat)
    (hl : IsMode D (leftMask D mask f s) x) (hr : IsMode D (rightMask D mask f s) x) :
    IsMode D mask x := by
  obtain ⟨⟨i, hi, hy⟩, hl2⟩ := hl
  refine ⟨⟨i, ?_, hy⟩, fun c => ?_⟩
  · rw [rowsOf_leftMask] at hi
    exact (List.mem_filter.mp hi).1
  · rw [classWeight_split D mask f s c, classWeight_split D mask f s x]
    exact add_le_add (hl2 c) (hr.2 c)

/-- `prune` keeps "every leaf predicts a mode of its rows": a merged leaf predicts a label that is
a mode on both sides, hence of the union -/
theorem prune_forallLeaves_mode (D : Data α β) :
    ∀ (t : Tree α) (m : List Bool), NoHalf t → ForallLeaves D (IsMode D) m t →
      ForallLeaves D (IsMode D) m (prune t).1 ∧ NoHalf (prune t).1 ∧
      ∀ x, (prune t).2 = some x → ∃ d, (prune t).1 = .leaf x d := by
  intro t
  induction t with
  | leaf p d =>
    intro m _ h
    refine ⟨h, trivial, fun x hx => ⟨d, ?_⟩⟩
    simp only [prune, Option.some.injEq] at hx
    simp [prune, hx]
  | half f s dec p d il c ih => intro m hno _; exact absurd hno (by simp [NoHalf])
  | node f s dec p d l r ihl ihr =>
    intro m hno h
    obtain ⟨hnl, hnr⟩ := hno
    obtain ⟨h2, h3⟩ := h
    obtain ⟨il1, il2, il3⟩ := ihl _ hnl h2
    obtain ⟨ir1, ir2, ir3⟩ := ihr _ hnr h3
    simp only [prune]
    split
    · rename_i x y hx hy
      split
      · rename_i hxy
        subst hxy
        obtain ⟨dl, hdl⟩ := il3 x hx
        obtain ⟨dr, hdr⟩ := ir3 x hy
        rw [hdl] at il1
        rw [hdr] at ir1
        refine ⟨isMode_merge D m f s x il1 ir1, trivial, fun z hz => ⟨d, ?_⟩⟩
        simp only [Option.some.injEq] at hz
        rw [hz]
      · exact ⟨⟨il1, ir1⟩, ⟨il2, ir2⟩, fun z hz => by simp at hz⟩
    · exact ⟨⟨il1, ir1⟩, ⟨il2, ir2⟩, fun z hz => by simp at hz⟩

end additive

/-! ### inductions over `fit` that carry an invariant of the row mask -/
section invariant
variable {α β : Type}
variable [Add α] [Sub α] [Div α] [Neg α] [LT α] [DecidableLT α] [LE α] [DecidableLE α]
  [OfNat α 0] [NatCast α]
variable [Add β] [Sub β] [Mul β] [Div β] [Neg β] [LT β] [DecidableLT β]
  [OfNat β 0] [OfNat β 1] [NatCast β]

theorem fitNode_forallSplitsI (P : Params α β) (D : Data α β) (ord : List Nat → List Nat)
    (sorted : List (List (Nat × α))) (I : List Bool → Prop)
    (hIl : ∀ m f s, I m → I (leftMask D m f s)) (hIr : ∀ m f s, I m → I (rightMask D m f s))
    (Q : List Bool → Nat → α → α → Prop)
    (hQ : ∀ mask depth b, I mask → stopGuard P (rowsOf mask).length depth = false →
      pickBest (candidates P D sorted mask (freqOf D (rowsOf mask))) = some b →
      ¬ decOf P D (freqOf D (rowsOf mask)) (some b) < P.minDec →
      (rowsOf (leftMask D mask b.feat b.split)).isEmpty = false →
      (rowsOf (rightMask D mask b.feat b.split)).isEmpty = false →
      Q mask b.feat b.split (decOf P D (freqOf D (rowsOf mask)) (some b))) :
    ∀ fuel mask depth t, I mask → fitNode P D ord sorted fuel mask depth = some t →
      ForallSplits D Q mask t := by
  intro fuel
  induction fuel with
  | zero => intro mask depth t _ h; simp [fitNode] at h
  | succ fuel ih =>
    intro mask depth t hI h
    cases fitNode_inv P D ord sorted fuel mask depth t h with
    | leaf pred hm => trivial
    | node pred b l r hm hguard hok hb hdec hl hr hle hre =>
      exact ⟨hQ mask depth b hI hguard hb hdec hle hre, ih _ _ _ (hIl _ _ _ hI) hl, ih _ _ _ (hIr _ _ _ hI) hr⟩
    | half pred b il c hguard hc hempty hb =>
      simp only [ForallSplits]
      refine ih _ _ _ ?_ hc
      cases il
      · exact hIr _ _ _ hI
      · exact hIl _ _ _ hI

theorem prune_noHalf : ∀ (t : Tree α), NoHalf t → NoHalf (prune t).1 := by
  intro t
  induction t with
  | leaf p d => intro h; exact h
  | half f s dec p d il c ih => intro h; exact h
  | node f s dec p d l r ihl ihr =>
    intro h
    simp only [prune]
    split
    · split
      · trivial
      · exact ⟨ihl h.1, ihr h.2⟩
    · exact ⟨ihl h.1, ihr h.2⟩

theorem forallSplits_allNodes (D : Data α β) (Q : List Bool → Nat → α → α → Prop) :
    ∀ (t : Tree α) (m : List Bool), NoHalf t → ForallSplits D Q m t →
      ∀ n ∈ allNodes t, ∀ f s dec pr d l r, n = Tree.node f s dec pr d l r → ∃ m', Q m' f s dec := by
  intro t
  induction t with
  | leaf p d =>
    intro m _ _ n hn f s dec pr d' l r he
    simp only [allNodes, List.mem_singleton] at hn
    rw [hn] at he; cases he
  | half f s dec p d il c ih => intro m hno; exact absurd hno (by simp [NoHalf])
  | node f0 s0 dec0 p0 d0 l0 r0 ihl ihr =>
    intro m hno h n hn f s dec pr d l r he
    obtain ⟨h1, h2, h3⟩ := h
    simp only [allNodes, List.mem_cons, List.mem_append] at hn
    rcases hn with hn | hn | hn
    · rw [hn] at he; cases he; exact ⟨m, h1⟩
    · exact ihl _ hno.1 h2 n hn f s dec pr d l r he
    · exact ihr _ hno.2 h3 n hn f s dec pr d l r he

end invariant

section full
variable {α β : Type} [Field α] [LinearOrder α] [IsStrictOrderedRing α]
variable [Field β] [LinearOrder β] [IsStrictOrderedRing β]

theorem rwS_nil (D : Data α β) : rwS D [] = 0 := by simp [rwS]

/-- with a positive `min_weight_leaf` no call of `fit` produces a leaf-flagged node that keeps a
child: the best candidate's sides carry at least `min_weight_leaf > 0`, so both receive rows -/
theorem fitNode_noHalf (P : Params α β) (D : Data α β) (ord : List Nat → List Nat) (p : Nat)
    (heps : 0 < P.eps) (hml : 0 < P.minLeaf) (hK : ∀ r, D.y r < D.K)
    (hlord : D.lord.Perm (List.range D.K)) :
    ∀ fuel mask depth t, mask.length = D.n →
      fitNode P D ord (sortedAll D p) fuel mask depth = some t → NoHalf t := by
  intro fuel
  induction fuel with
  | zero => intro mask depth t _ h; simp [fitNode] at h
  | succ fuel ih =>
    intro mask depth t hlen h
    cases fitNode_inv P D ord _ fuel mask depth t h with
    | leaf pred hm => trivial
    | node pred b l r hm hguard hok hb hdec hl hr hle hre =>
      exact ⟨ih _ _ _ (by rw [length_leftMask]; exact hlen) hl, ih _ _ _ (by rw [length_rightMask]; exact hlen) hr⟩
    | half pred b il c hguard hc hempty hb =>
      exfalso
      have hspec := candidates_spec P D mask p heps hK hlord hlen b (pickBest_mem _ _ hb)
      cases il with
      | true =>
        simp only [if_true, Bool.false_eq_true, if_false] at hempty
        rw [List.isEmpty_iff] at hempty
        have := hspec.minR
        rw [hspec.wR, hempty, rwS_nil] at this
        exact this hml
      | false =>
        simp only [Bool.false_eq_true, if_false] at hempty
        rw [List.isEmpty_iff] at hempty
        have := hspec.minL
        rw [hspec.wL, hempty, rwS_nil] at this
        exact this hml

theorem length_allMask (D : Data α β) : (allMask D).length = D.n := by simp [allMask]

theorem rank_inj (D : Data α β) (hlord : D.lord.Perm (List.range D.K)) (a b : Nat)
    (ha : a < D.K) (hb : b < D.K) (h : D.rank a = D.rank b) : a = b := by
  have ha' : a ∈ D.lord := hlord.mem_iff.mpr (List.mem_range.mpr ha)
  have hb' : b ∈ D.lord := hlord.mem_iff.mpr (List.mem_range.mpr hb)
  unfold Data.rank at h
  have h1 := List.getElem_idxOf (List.idxOf_lt_length_of_mem ha')
  have h2 := List.getElem_idxOf (List.idxOf_lt_length_of_mem hb')
  rw [← h1, ← h2]
  simp only [h]

theorem mem_presentClasses_lt (D : Data α β) (rows : List Nat) (c : Nat)
    (h : c ∈ presentClasses D rows) : c < D.K := by
  simp only [presentClasses, List.mem_filter, List.mem_range] at h
  exact h.1

/-- **the fitted tree does not depend on the iteration order of the hash maps** -/
theorem fitNode_order_irrelevant (P : Params α β) (D : Data α β) (ord1 ord2 : List Nat → List Nat)
    (h1 : ∀ l c, c ∈ ord1 l ↔ c ∈ l) (h2 : ∀ l c, c ∈ ord2 l ↔ c ∈ l)
    (hlord : D.lord.Perm (List.range D.K)) (sorted : List (List (Nat × α))) :
    ∀ fuel mask depth, fitNode P D ord1 sorted fuel mask depth = fitNode P D ord2 sorted fuel mask depth := by
  have hmodal : ∀ mask, modalOf (classWeight D (rowsOf mask)) D.rank (ord1 (presentClasses D (rowsOf mask))) =
      modalOf (classWeight D (rowsOf mask)) D.rank (ord2 (presentClasses D (rowsOf mask))) := by
    intro mask
    refine modalOf_order_irrelevant _ _ _ _ (fun c => by rw [h1, h2]) ?_
    intro a ha b hb hab
    rw [h1] at ha hb
    exact rank_inj D hlord a b (mem_presentClasses_lt D _ a ha) (mem_presentClasses_lt D _ b hb) hab
  intro fuel
  induction fuel with
  | zero => intro mask depth; rfl
  | succ fuel ih =>
    intro mask depth
    unfold fitNode
    simp only [ih, hmodal mask]

end full
end LinfaSpec.Tree
