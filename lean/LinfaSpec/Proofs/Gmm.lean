import LinfaSpec.Model.Gmm
import Mathlib.Algebra.BigOperators.Ring.Finset
import Mathlib.Algebra.BigOperators.Field
import Mathlib.Algebra.BigOperators.Group.List.Basic
import Mathlib.Algebra.Order.BigOperators.Ring.Finset
import Mathlib.Algebra.Order.Field.Basic
import Mathlib.Tactic.Ring
import Mathlib.Tactic.Linarith
import Mathlib.Tactic.Positivity
import Mathlib.Tactic.FieldSimp

/-!
Helper lemmas for C10 (`Model/Gmm.lean`): the model's index sums as `Finset` sums,
entries of the list-of-rows matrices, weighted means, the quadratic form of the
covariance, `argmaxFirst`, `rowMax`.
-/
set_option linter.unusedSectionVars false

namespace LinfaSpec.Gmm
open LinfaSpec Finset

section field
variable {α : Type} [Field α] [LinearOrder α] [IsStrictOrderedRing α]

theorem sumS_eq_sum (l : List α) : sumS l = l.sum := by
  unfold sumS
  rw [List.sum_eq_foldl]

theorem sumRange_eq (n : Nat) (f : Nat → α) : sumRange n f = ∑ i ∈ range n, f i := by
  unfold sumRange
  rw [sumS_eq_sum]
  induction n with
  | zero => simp
  | succ n ih =>
    rw [List.range_succ, List.map_append, List.sum_append, ih, Finset.sum_range_succ]
    simp

theorem getD_map_range {β : Type} (k : Nat) (g : Nat → β) (j : Nat) (h : j < k) (dflt : β) :
    ((List.range k).map g).getD j dflt = g j := by
  simp [List.getD_eq_getElem?_getD, h]

theorem at2_map_range (k d : Nat) (g : Nat → Nat → α) (j c : Nat) (hj : j < k) (hc : c < d) :
    at2 ((List.range k).map fun j => (List.range d).map fun c => g j c) j c = g j c := by
  unfold at2
  rw [getD_map_range k _ j hj, getD_map_range d _ c hc]

theorem sumS_map_range (k : Nat) (g : Nat → α) :
    sumS ((List.range k).map g) = ∑ j ∈ range k, g j := sumRange_eq k g

/-- what a successful `estimateParams` returned -/
theorem estimateParams_ok (thr reg : α) (n d k : Nat) (x r : List (List α)) (p : Params α)
    (h : estimateParams thr reg n d k x r = .ok p) :
    (∀ v ∈ nkOf n k r, ¬ v < thr) ∧ p.nk = nkOf n k r ∧
    p.weights = (nkOf n k r).map (fun v => v / (n : α)) ∧
    p.means = meansOf n d k x r (nkOf n k r) ∧
    p.covs = (List.range k).map fun j =>
      covOf n d x r j ((meansOf n d k x r (nkOf n k r)).getD j []) ((nkOf n k r).getD j 0) reg := by
  unfold estimateParams at h
  by_cases hg : (nkOf n k r).any (fun v => v < thr) = true
  · simp [hg] at h
  · simp only [hg] at h
    injection h with h
    subst h
    refine ⟨?_, rfl, rfl, rfl, rfl⟩
    intro v hv hlt
    apply hg
    simp only [List.any_eq_true, decide_eq_true_eq]
    exact ⟨v, hv, hlt⟩

theorem nkOf_getD (n k : Nat) (r : List (List α)) (j : Nat) (hj : j < k) :
    (nkOf n k r).getD j 0 = ∑ i ∈ range n, at2 r i j := by
  unfold nkOf
  rw [getD_map_range k _ j hj, sumRange_eq]

theorem nkOf_mem (n k : Nat) (r : List (List α)) (j : Nat) (hj : j < k) :
    (∑ i ∈ range n, at2 r i j) ∈ nkOf n k r := by
  unfold nkOf
  rw [List.mem_map]
  exact ⟨j, List.mem_range.mpr hj, sumRange_eq _ _⟩

/-- total mass: if every row of the responsibilities sums to one, `Σ_j nk_j = n` -/
theorem sum_nk (n k : Nat) (r : List (List α))
    (hrow : ∀ i, i < n → ∑ j ∈ range k, at2 r i j = 1) :
    sumS (nkOf n k r) = (n : α) := by
  unfold nkOf
  rw [sumS_map_range]
  simp only [sumRange_eq]
  rw [Finset.sum_comm]
  rw [Finset.sum_congr rfl (fun i hi => hrow i (Finset.mem_range.mp hi))]
  simp

theorem sum_weights (n k : Nat) (r : List (List α)) (hn : 0 < n)
    (hrow : ∀ i, i < n → ∑ j ∈ range k, at2 r i j = 1) :
    sumS ((nkOf n k r).map (fun v => v / (n : α))) = 1 := by
  have h := sum_nk n k r hrow
  rw [sumS_eq_sum] at h ⊢
  have hdiv : ∀ l : List α, (l.map (fun v => v / (n : α))).sum = l.sum / (n : α) := by
    intro l
    induction l with
    | nil => simp
    | cons a t ih => simp [ih, add_div]
  rw [hdiv, h]
  have : (n : α) ≠ 0 := Nat.cast_ne_zero.mpr (by omega)
  exact div_self this

/-- a weighted mean with non-negative weights of positive total lies between any bounds of the points -/
theorem weighted_mean_bounds (n : Nat) (w v : Nat → α) (lo hi : α)
    (hw : ∀ i, i < n → 0 ≤ w i) (hpos : 0 < ∑ i ∈ range n, w i)
    (hb : ∀ i, i < n → lo ≤ v i ∧ v i ≤ hi) :
    lo ≤ (∑ i ∈ range n, w i * v i) / (∑ i ∈ range n, w i) ∧
    (∑ i ∈ range n, w i * v i) / (∑ i ∈ range n, w i) ≤ hi := by
  constructor
  · rw [le_div_iff₀ hpos, Finset.mul_sum]
    apply Finset.sum_le_sum
    intro i hi'
    have hi'' := Finset.mem_range.mp hi'
    rw [mul_comm]
    exact mul_le_mul_of_nonneg_left (hb i hi'').1 (hw i hi'')
  · rw [div_le_iff₀ hpos, Finset.mul_sum]
    apply Finset.sum_le_sum
    intro i hi'
    have hi'' := Finset.mem_range.mp hi'
    rw [mul_comm hi]
    exact mul_le_mul_of_nonneg_left (hb i hi'').2 (hw i hi'')

theorem meansOf_at (n d k : Nat) (x r : List (List α)) (nk : List α) (j c : Nat) (hj : j < k) (hc : c < d) :
    at2 (meansOf n d k x r nk) j c = (∑ i ∈ range n, at2 r i j * at2 x i c) / nk.getD j 0 := by
  unfold meansOf
  rw [at2_map_range k d _ j c hj hc, sumRange_eq]

/-- entry of the covariance as `S_ab / nk + reg·δ_ab` -/
theorem covOf_at (n d : Nat) (x r : List (List α)) (j : Nat) (mu : List α) (nkj reg : α)
    (a b : Nat) (ha : a < d) (hb : b < d) :
    at2 (covOf n d x r j mu nkj reg) a b =
      (∑ i ∈ range n, ((at2 x i a - mu.getD a 0) * at2 r i j) * (at2 x i b - mu.getD b 0)) / nkj
        + (if a = b then reg else 0) := by
  unfold covOf
  rw [at2_map_range d d _ a b ha hb, sumRange_eq]
  split <;> simp

theorem covOf_symm (n d : Nat) (x r : List (List α)) (j : Nat) (mu : List α) (nkj reg : α)
    (a b : Nat) (ha : a < d) (hb : b < d) :
    at2 (covOf n d x r j mu nkj reg) a b = at2 (covOf n d x r j mu nkj reg) b a := by
  rw [covOf_at _ _ _ _ _ _ _ _ a b ha hb, covOf_at _ _ _ _ _ _ _ _ b a hb ha]
  congr 1
  · congr 1
    apply Finset.sum_congr rfl
    intro i _
    ring
  · by_cases h : a = b
    · subst h; rfl
    · have h' : ¬ b = a := fun e => h e.symm
      simp [h, h']

/-- the scatter part of the quadratic form is a weighted sum of squares -/
theorem quad_scatter (n d : Nat) (D : Nat → Nat → α) (w : Nat → α) (v : Nat → α) :
    ∑ a ∈ range d, ∑ b ∈ range d, v a * (∑ i ∈ range n, (D i a * w i) * D i b) * v b =
      ∑ i ∈ range n, w i * (∑ a ∈ range d, v a * D i a) ^ 2 := by
  have hr : ∀ i, w i * (∑ a ∈ range d, v a * D i a) ^ 2 =
      ∑ a ∈ range d, ∑ b ∈ range d, v a * ((D i a * w i) * D i b) * v b := by
    intro i
    rw [sq, Finset.sum_mul_sum, Finset.mul_sum]
    apply Finset.sum_congr rfl
    intro a _
    rw [Finset.mul_sum]
    apply Finset.sum_congr rfl
    intro b _
    ring
  symm
  simp only [hr]
  rw [Finset.sum_comm]
  apply Finset.sum_congr rfl
  intro a _
  rw [Finset.sum_comm]
  apply Finset.sum_congr rfl
  intro b _
  rw [Finset.mul_sum, Finset.sum_mul]

/-- quadratic form of a covariance of the model:
`vᵀ Σ v = (Σ_i r_i (v·(x_i − μ))²)/nk + reg·|v|²` -/
theorem covOf_quad (n d : Nat) (x r : List (List α)) (j : Nat) (mu : List α) (nkj reg : α)
    (v : Nat → α) :
    ∑ a ∈ range d, ∑ b ∈ range d, v a * at2 (covOf n d x r j mu nkj reg) a b * v b =
      (∑ i ∈ range n, at2 r i j * (∑ a ∈ range d, v a * (at2 x i a - mu.getD a 0)) ^ 2) / nkj
        + reg * ∑ a ∈ range d, v a ^ 2 := by
  have h1 : ∀ a ∈ range d, ∀ b ∈ range d, v a * at2 (covOf n d x r j mu nkj reg) a b * v b =
      (v a * (∑ i ∈ range n, ((at2 x i a - mu.getD a 0) * at2 r i j) * (at2 x i b - mu.getD b 0)) * v b) / nkj
        + (if a = b then v a * reg * v b else 0) := by
    intro a ha b hb
    rw [covOf_at _ _ _ _ _ _ _ _ a b (Finset.mem_range.mp ha) (Finset.mem_range.mp hb)]
    split <;> ring
  rw [Finset.sum_congr rfl (fun a ha => Finset.sum_congr rfl (fun b hb => h1 a ha b hb))]
  simp only [Finset.sum_add_distrib]
  congr 1
  · simp only [← Finset.sum_div]
    congr 1
    exact quad_scatter n d (fun i a => at2 x i a - mu.getD a 0) (fun i => at2 r i j) v
  · rw [Finset.mul_sum]
    apply Finset.sum_congr rfl
    intro a ha
    rw [Finset.sum_ite_eq]
    simp only [ha, if_true]
    ring

theorem covOf_quad_ge (n d : Nat) (x r : List (List α)) (j : Nat) (mu : List α) (nkj reg : α)
    (v : Nat → α) (hr : ∀ i, i < n → 0 ≤ at2 r i j) (hnk : 0 < nkj) :
    reg * ∑ a ∈ range d, v a ^ 2 ≤
      ∑ a ∈ range d, ∑ b ∈ range d, v a * at2 (covOf n d x r j mu nkj reg) a b * v b := by
  rw [covOf_quad]
  have : 0 ≤ (∑ i ∈ range n, at2 r i j * (∑ a ∈ range d, v a * (at2 x i a - mu.getD a 0)) ^ 2) / nkj := by
    apply div_nonneg _ hnk.le
    apply Finset.sum_nonneg
    intro i hi
    exact mul_nonneg (hr i (Finset.mem_range.mp hi)) (sq_nonneg _)
  linarith

theorem covOf_diag_ge (n d : Nat) (x r : List (List α)) (j : Nat) (mu : List α) (nkj reg : α)
    (a : Nat) (ha : a < d) (hr : ∀ i, i < n → 0 ≤ at2 r i j) (hnk : 0 < nkj) :
    reg ≤ at2 (covOf n d x r j mu nkj reg) a a := by
  rw [covOf_at _ _ _ _ _ _ _ _ a a ha ha]
  simp only [if_true]
  have : 0 ≤ (∑ i ∈ range n, ((at2 x i a - mu.getD a 0) * at2 r i j) * (at2 x i a - mu.getD a 0)) / nkj := by
    apply div_nonneg _ hnk.le
    apply Finset.sum_nonneg
    intro i hi
    have := hr i (Finset.mem_range.mp hi)
    have e : ((at2 x i a - mu.getD a 0) * at2 r i j) * (at2 x i a - mu.getD a 0)
        = at2 r i j * (at2 x i a - mu.getD a 0) ^ 2 := by ring
    rw [e]
    exact mul_nonneg this (sq_nonneg _)
  linarith

end field
end LinfaSpec.Gmm
