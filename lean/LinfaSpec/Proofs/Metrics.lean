import LinfaSpec.Model.Metrics
import Mathlib.Tactic.Ring
import Mathlib.Tactic.Linarith
import Mathlib.Algebra.Order.Field.Basic
import Mathlib.Algebra.BigOperators.Group.List.Basic
import Mathlib.Data.List.Sort
import Mathlib.Tactic.FieldSimp
import Mathlib.Tactic.NormNum
import Mathlib.Tactic.Positivity
import Mathlib.Tactic.LinearCombination

/-!
Helper lemmas for C05 (confusion-matrix counting loop, label set, sums).
-/
namespace LinfaSpec.Metrics
open LinfaSpec

/-- the left fold used for sequential Rust loops is the list sum -/
theorem sumS_eq_sum {α} [AddCommMonoid α] (l : List α) : sumS l = l.sum := by
  unfold sumS
  rw [List.sum_eq_foldl]

/-! ### `modifyAt`, `incr`, `cell` -/

theorem length_modifyAt {β} (f : β → β) (i : Nat) (l : List β) : (modifyAt f i l).length = l.length := by
  fun_induction modifyAt f i l <;> simp_all

theorem getElem?_modifyAt {β} (f : β → β) (i j : Nat) (l : List β) :
    (modifyAt f i l)[j]? = if i = j then l[j]?.map f else l[j]? := by
  fun_induction modifyAt f i l generalizing j with
  | case1 => simp
  | case2 x xs => cases j <;> simp
  | case3 i x xs ih => cases j <;> simp [ih]

theorem cell_eq (m : List (List Nat)) (i j : Nat) :
    cell m i j = ((m[i]?.getD [])[j]?).getD 0 := by
  simp [cell, List.getD_eq_getElem?_getD]

/-- all rows of a `k × k` matrix -/
def Square (k : Nat) (m : List (List Nat)) : Prop := m.length = k ∧ ∀ r ∈ m, r.length = k

theorem square_zeros (k : Nat) : Square k (zeros k) := by
  simp [Square, zeros]

theorem square_incr {k m} (h : Square k m) (a b : Nat) : Square k (incr m a b) := by
  refine ⟨by simp [incr, length_modifyAt, h.1], ?_⟩
  intro r hr
  obtain ⟨i, hi, rfl⟩ := List.getElem_of_mem hr
  have := getElem?_modifyAt (modifyAt (· + 1) b) a i m
  unfold incr at hi ⊢
  rw [List.getElem?_eq_getElem hi] at this
  rw [length_modifyAt] at hi
  rw [List.getElem?_eq_getElem hi] at this
  split at this
  · simp at this; rw [this, length_modifyAt]; exact h.2 _ (List.getElem_mem _)
  · simp at this; rw [this]; exact h.2 _ (List.getElem_mem _)

theorem cell_incr {k m} (h : Square k m) (a b i j : Nat) (ha : a < k) (hb : b < k) :
    cell (incr m a b) i j = cell m i j + if a = i ∧ b = j then 1 else 0 := by
  unfold incr
  rw [cell_eq, cell_eq, getElem?_modifyAt]
  by_cases hai : a = i
  · subst hai
    have hlt : a < m.length := by rw [h.1]; exact ha
    have hr : (m[a]).length = k := h.2 _ (List.getElem_mem _)
    simp only [if_true, List.getElem?_eq_getElem hlt, Option.map_some, Option.getD_some, true_and]
    rw [getElem?_modifyAt]
    by_cases hbj : b = j
    · subst hbj
      have : b < (m[a]).length := by rw [hr]; exact hb
      simp [List.getElem?_eq_getElem this]
    · simp [hbj]
  · simp [hai]

theorem cell_zeros (k i j : Nat) : cell (zeros k) i j = 0 := by
  rw [cell_eq, zeros]
  by_cases hi : i < k
  · simp [List.getElem?_replicate, hi]
    by_cases hj : j < k <;> simp [hj]
  · simp [List.getElem?_replicate, hi]

section Labels
variable {L : Type} [DecidableEq L]

theorem indexOf_cons (x y : L) (ys : List L) :
    indexOf x (y :: ys) = if x = y then some 0 else (indexOf x ys).map (· + 1) := rfl

theorem indexOf_lt {x : L} {cs : List L} {i : Nat} (h : indexOf x cs = some i) : i < cs.length := by
  induction cs generalizing i with
  | nil => simp [indexOf] at h
  | cons y ys ih =>
    rw [indexOf_cons] at h
    split at h
    · simp at h; subst h; simp
    · simp at h
      obtain ⟨a, ha, rfl⟩ := h
      have := ih ha
      simp; omega

theorem indexOf_eq_some_iff {x : L} {cs : List L} (hnd : cs.Nodup) (i : Nat) :
    indexOf x cs = some i ↔ cs[i]? = some x := by
  induction cs generalizing i with
  | nil => simp [indexOf]
  | cons y ys ih =>
    have hnd' : ys.Nodup := (List.nodup_cons.mp hnd).2
    have hy : y ∉ ys := (List.nodup_cons.mp hnd).1
    rw [indexOf_cons]
    by_cases hxy : x = y
    · subst hxy
      cases i with
      | zero => simp
      | succ i =>
        simp
        intro h
        exact hy (List.mem_of_getElem? h)
    · cases i with
      | zero => simp [hxy]; exact fun h => hxy h.symm
      | succ i => simp [hxy, ih hnd']

theorem indexOf_isSome_of_mem {x : L} {cs : List L} (h : x ∈ cs) : ∃ i, indexOf x cs = some i := by
  induction cs with
  | nil => simp at h
  | cons y ys ih =>
    rw [indexOf_cons]
    by_cases hxy : x = y
    · exact ⟨0, by simp [hxy]⟩
    · have : x ∈ ys := by simp_all
      obtain ⟨i, hi⟩ := ih this
      exact ⟨i + 1, by simp [hxy, hi]⟩

/-- the counting loop adds one to cell `(i, j)` for every pair whose labels sit at positions `i`, `j` -/
theorem cell_foldl_count (cs : List L) (pairs : List (L × L)) (m : List (List Nat))
    (hm : Square cs.length m) (i j : Nat) :
    Square cs.length (pairs.foldl (countStep cs) m) ∧
    cell (pairs.foldl (countStep cs) m) i j =
      cell m i j + (pairs.filter fun p => indexOf p.1 cs = some i ∧ indexOf p.2 cs = some j).length := by
  induction pairs generalizing m with
  | nil => simp [hm]
  | cons p ps ih =>
    simp only [List.foldl_cons, countStep]
    cases h1 : indexOf p.1 cs with
    | none =>
      have := ih m hm
      simp only [h1] at this ⊢
      simp [List.filter_cons, h1, this]
    | some a =>
      cases h2 : indexOf p.2 cs with
      | none =>
        have := ih m hm
        simp only [h2] at this ⊢
        simp [List.filter_cons, h2, this]
      | some b =>
        have ha := indexOf_lt h1
        have hb := indexOf_lt h2
        have := ih (incr m a b) (square_incr hm a b)
        refine ⟨this.1, ?_⟩
        rw [this.2, cell_incr hm a b i j ha hb]
        simp only [List.filter_cons, h1, h2, Option.some.injEq]
        by_cases hab : a = i ∧ b = j
        · simp [hab]; omega
        · simp [hab]
end Labels


/-! ### measures of the matrix that grow by a fixed amount per `incr` -/

theorem sum_modifyAt_succ (b : Nat) (r : List Nat) (hb : b < r.length) :
    (modifyAt (· + 1) b r).sum = r.sum + 1 := by
  fun_induction modifyAt (· + 1) b r with
  | case1 => simp at hb
  | case2 x xs => simp; omega
  | case3 i x xs ih => simp at hb; simp [ih hb]; omega

theorem total_incr {k m} (h : Square k m) (a b : Nat) (ha : a < k) (hb : b < k) :
    total (incr m a b) = total m + 1 := by
  unfold total incr
  obtain ⟨hl, hr⟩ := h
  induction m generalizing a k with
  | nil => simp at hl; omega
  | cons r rs ih =>
    cases a with
    | zero =>
      simp only [modifyAt, List.map_cons, List.sum_cons]
      rw [sum_modifyAt_succ b r (by rw [hr r (by simp)]; exact hb)]; omega
    | succ a =>
      simp only [modifyAt, List.map_cons, List.sum_cons]
      -- the tail is not square of size k, only its rows have length k: redo by hand
      have : ∀ (rs : List (List Nat)) (a : Nat), a < rs.length → (∀ r ∈ rs, r.length = k) →
          ((modifyAt (modifyAt (· + 1) b) a rs).map List.sum).sum = (rs.map List.sum).sum + 1 := by
        intro rs
        induction rs with
        | nil => intro a ha; simp at ha
        | cons q qs ihq =>
          intro a ha hq
          cases a with
          | zero =>
            simp only [modifyAt, List.map_cons, List.sum_cons]
            rw [sum_modifyAt_succ b q (by rw [hq q (by simp)]; exact hb)]; omega
          | succ a =>
            simp only [modifyAt, List.map_cons, List.sum_cons]
            rw [ihq a (by simp at ha; omega) (fun r hr' => hq r (by simp [hr']))]; omega
      rw [this rs a (by simp at hl; omega) (fun r hr' => hr r (by simp [hr']))]; omega

theorem length_incr (m : List (List Nat)) (a b : Nat) : (incr m a b).length = m.length := by
  simp [incr, length_modifyAt]

theorem sum_range_ite (k a : Nat) (c : Nat) :
    ((List.range k).map fun i => if a = i then c else 0).sum = if a < k then c else 0 := by
  induction k with
  | zero => simp
  | succ k ih =>
    rw [List.range_succ, List.map_append, List.sum_append, ih]
    by_cases h1 : a < k
    · have : a ≠ k := by omega
      simp [h1, this]; omega
    · by_cases h2 : a = k
      · subst h2; simp
      · have : ¬ a < k + 1 := by omega
        simp [h1, h2, this]

theorem diagSum_incr {k m} (h : Square k m) (a b : Nat) (ha : a < k) (hb : b < k) :
    diagSum (incr m a b) = diagSum m + if a = b then 1 else 0 := by
  unfold diagSum
  rw [length_incr]
  have : ∀ i, cell (incr m a b) i i = cell m i i + if a = i then (if a = b then 1 else 0) else 0 := by
    intro i
    rw [cell_incr h a b i i ha hb]
    by_cases hai : a = i
    · subst hai
      by_cases hab : a = b
      · subst hab; simp
      · have : ¬ b = a := fun h => hab h.symm
        simp [hab, this]
    · simp [hai]
  simp only [this]
  rw [List.sum_map_add, sum_range_ite, h.1]
  simp [ha]

theorem rowSum_incr {k m} (h : Square k m) (a b i : Nat) (ha : a < k) (hb : b < k) :
    rowSum (incr m a b) i = rowSum m i + if a = i then 1 else 0 := by
  unfold rowSum incr
  simp only [List.getD_eq_getElem?_getD, getElem?_modifyAt]
  by_cases hai : a = i
  · subst hai
    have hlt : a < m.length := by rw [h.1]; exact ha
    have hr : (m[a]).length = k := h.2 _ (List.getElem_mem _)
    simp [List.getElem?_eq_getElem hlt]
    exact sum_modifyAt_succ b _ (by rw [hr]; exact hb)
  · simp [hai]

theorem colSum_modifyAt (f : List Nat → List Nat) (g : List Nat → Nat) (a : Nat) (m : List (List Nat))
    (ha : a < m.length) :
    ((modifyAt f a m).map g).sum + g (m[a]) = (m.map g).sum + g (f (m[a])) := by
  induction m generalizing a with
  | nil => simp at ha
  | cons r rs ih =>
    cases a with
    | zero => simp [modifyAt]; omega
    | succ a =>
      simp at ha
      simp only [modifyAt, List.map_cons, List.sum_cons, List.getElem_cons_succ]
      have := ih a ha
      omega

theorem colSum_incr {k m} (h : Square k m) (a b j : Nat) (ha : a < k) (hb : b < k) :
    colSum (incr m a b) j = colSum m j + if b = j then 1 else 0 := by
  unfold colSum incr
  have hlt : a < m.length := by rw [h.1]; exact ha
  have hr : (m[a]).length = k := h.2 _ (List.getElem_mem _)
  have := colSum_modifyAt (modifyAt (· + 1) b) (fun r => r.getD j 0) a m hlt
  simp only [List.getD_eq_getElem?_getD, getElem?_modifyAt] at this ⊢
  by_cases hbj : b = j
  · subst hbj
    have hb' : b < (m[a]).length := by rw [hr]; exact hb
    simp [List.getElem?_eq_getElem hb'] at this ⊢
    omega
  · simp [hbj] at this ⊢
    omega

section Labels
variable {L : Type} [DecidableEq L]

/-- generic form of the loop invariant: a quantity that grows by `δ a b` per `incr m a b` ends at
its initial value plus the sum of `δ` over the pairs whose two labels are both known -/
theorem loop_measure (cs : List L) (μ : List (List Nat) → Nat) (δ : Nat → Nat → Nat)
    (hμ : ∀ m a b, Square cs.length m → a < cs.length → b < cs.length → μ (incr m a b) = μ m + δ a b)
    (pairs : List (L × L)) (m : List (List Nat)) (hm : Square cs.length m) :
    μ (pairs.foldl (countStep cs) m) =
      μ m + (pairs.map fun p =>
        match indexOf p.1 cs, indexOf p.2 cs with
        | some a, some b => δ a b
        | _, _ => 0).sum := by
  induction pairs generalizing m with
  | nil => simp
  | cons p ps ih =>
    simp only [List.foldl_cons, List.map_cons, List.sum_cons, countStep]
    cases h1 : indexOf p.1 cs with
    | none => simp [ih m hm]
    | some a =>
      cases h2 : indexOf p.2 cs with
      | none => simp [ih m hm]
      | some b =>
        simp only []
        rw [ih (incr m a b) (square_incr hm a b), hμ m a b hm (indexOf_lt h1) (indexOf_lt h2)]
        omega
end Labels


/-! ### the label set -/
section Order
variable {L : Type} [LinearOrder L]

theorem mem_insertUniq (a x : L) (l : List L) : a ∈ insertUniq x l ↔ a = x ∨ a ∈ l := by
  induction l with
  | nil => simp [insertUniq]
  | cons y ys ih =>
    unfold insertUniq
    split
    · simp
    · split
      · simp [ih]; tauto
      · have : x = y := le_antisymm (not_lt.mp ‹_›) (not_lt.mp ‹_›)
        subst this; simp

theorem sorted_insertUniq (x : L) (l : List L) (h : l.Pairwise (· < ·)) :
    (insertUniq x l).Pairwise (· < ·) := by
  induction l with
  | nil => simp [insertUniq]
  | cons y ys ih =>
    obtain ⟨hy, hys⟩ := List.pairwise_cons.mp h
    unfold insertUniq
    split
    · rename_i hxy
      refine List.pairwise_cons.mpr ⟨?_, h⟩
      intro a ha
      rcases List.mem_cons.mp ha with rfl | ha
      · exact hxy
      · exact lt_trans hxy (hy a ha)
    · split
      · rename_i hyx
        refine List.pairwise_cons.mpr ⟨?_, ih hys⟩
        intro a ha
        rcases (mem_insertUniq a x ys).mp ha with rfl | ha
        · exact hyx
        · exact hy a ha
      · exact h

theorem mem_sortUniq (a : L) (l : List L) : a ∈ sortUniq l ↔ a ∈ l := by
  induction l with
  | nil => simp [sortUniq]
  | cons y ys ih =>
    have : sortUniq (y :: ys) = insertUniq y (sortUniq ys) := rfl
    rw [this, mem_insertUniq, ih]; simp

theorem sorted_sortUniq (l : List L) : (sortUniq l).Pairwise (· < ·) := by
  induction l with
  | nil => simp [sortUniq]
  | cons y ys ih => exact sorted_insertUniq y _ ih

theorem nodup_sortUniq (l : List L) : (sortUniq l).Nodup :=
  (sorted_sortUniq l).imp (fun h => ne_of_lt h)

theorem mem_classes (a : L) (pred truth : List L) : a ∈ classes pred truth ↔ a ∈ pred ∨ a ∈ truth := by
  unfold classes
  simp only
  split <;> simp [mem_sortUniq]

theorem nodup_classes (pred truth : List L) : (classes pred truth).Nodup := by
  unfold classes
  simp only
  split
  · exact List.nodup_reverse.mpr (nodup_sortUniq _)
  · exact nodup_sortUniq _

/-- two strictly increasing lists with the same members are equal -/
theorem sorted_ext {l₁ l₂ : List L} (h₁ : l₁.Pairwise (· < ·)) (h₂ : l₂.Pairwise (· < ·))
    (h : ∀ a, a ∈ l₁ ↔ a ∈ l₂) : l₁ = l₂ := by
  induction l₁ generalizing l₂ with
  | nil =>
    cases l₂ with
    | nil => rfl
    | cons y ys => exact absurd ((h y).mpr (by simp)) (by simp)
  | cons x xs ih =>
    cases l₂ with
    | nil => exact absurd ((h x).mp (by simp)) (by simp)
    | cons y ys =>
      obtain ⟨hx, hxs⟩ := List.pairwise_cons.mp h₁
      obtain ⟨hy, hys⟩ := List.pairwise_cons.mp h₂
      have hxy : x = y := by
        have h1 := (h x).mp (by simp)
        have h2 := (h y).mpr (by simp)
        rcases List.mem_cons.mp h1 with rfl | h1
        · rfl
        · rcases List.mem_cons.mp h2 with rfl | h2
          · rfl
          · exact absurd (lt_trans (hy x h1) (hx y h2)) (lt_irrefl _)
      subst hxy
      congr 1
      apply ih hxs hys
      intro a
      constructor
      · intro ha
        have := (h a).mp (by simp [ha])
        rcases List.mem_cons.mp this with rfl | h'
        · exact absurd (hx _ ha) (lt_irrefl _)
        · exact h'
      · intro ha
        have := (h a).mpr (by simp [ha])
        rcases List.mem_cons.mp this with rfl | h'
        · exact absurd (hy _ ha) (lt_irrefl _)
        · exact h'

/-- the class list depends only on the set of labels that occur -/
theorem classes_congr (p₁ t₁ p₂ t₂ : List L) (h : ∀ a, a ∈ p₁ ++ t₁ ↔ a ∈ p₂ ++ t₂) :
    classes p₁ t₁ = classes p₂ t₂ := by
  have : sortUniq (p₁ ++ t₁) = sortUniq (p₂ ++ t₂) :=
    sorted_ext (sorted_sortUniq _) (sorted_sortUniq _) (by intro a; rw [mem_sortUniq, mem_sortUniq, h])
  unfold classes
  rw [this]
end Order


section Labels
variable {L : Type} [DecidableEq L]

theorem countLoop_square (cs : List L) (pairs : List (L × L)) : Square cs.length (countLoop cs pairs) :=
  (cell_foldl_count cs pairs (zeros cs.length) (square_zeros _) 0 0).1

theorem idx_inj {cs : List L} (hnd : cs.Nodup) {x : L} {a b : Nat} (ha : cs[a]? = some x) (hb : cs[b]? = some x) :
    a = b := by
  have h1 := (indexOf_eq_some_iff hnd a).mpr ha
  have h2 := (indexOf_eq_some_iff hnd b).mpr hb
  rw [h1] at h2; exact Option.some.inj h2

/-- counting form of the loop invariant: when every label is a member of `cs` and the increment of
`μ` is the indicator of a predicate on the pair, `μ` of the result is the number of such pairs -/
theorem loop_count (cs : List L) (hnd : cs.Nodup) (μ : List (List Nat) → Nat) (δ : Nat → Nat → Nat)
    (hμ : ∀ m a b, Square cs.length m → a < cs.length → b < cs.length → μ (incr m a b) = μ m + δ a b)
    (hμ0 : μ (zeros cs.length) = 0)
    (P : L × L → Prop) [DecidablePred P]
    (hδ : ∀ (p : L × L) a b, cs[a]? = some p.1 → cs[b]? = some p.2 → δ a b = if P p then 1 else 0)
    (pairs : List (L × L)) (hall : ∀ p ∈ pairs, p.1 ∈ cs ∧ p.2 ∈ cs) :
    μ (countLoop cs pairs) = (pairs.filter fun p => P p).length := by
  unfold countLoop
  rw [loop_measure cs μ δ hμ pairs _ (square_zeros _), hμ0, Nat.zero_add]
  induction pairs with
  | nil => simp
  | cons p ps ih =>
    obtain ⟨h1, h2⟩ := hall p (by simp)
    obtain ⟨a, ha⟩ := indexOf_isSome_of_mem h1
    obtain ⟨b, hb⟩ := indexOf_isSome_of_mem h2
    simp only [List.map_cons, List.sum_cons, ha, hb, List.filter_cons]
    rw [ih (fun q hq => hall q (by simp [hq]))]
    rw [hδ p a b ((indexOf_eq_some_iff hnd a).mp ha) ((indexOf_eq_some_iff hnd b).mp hb)]
    by_cases hP : P p <;> simp [hP]; omega

theorem total_zeros (k : Nat) : total (zeros k) = 0 := by
  simp [total, zeros]

theorem diagSum_zeros (k : Nat) : diagSum (zeros k) = 0 := by
  simp [diagSum, cell_zeros]

theorem rowSum_zeros (k i : Nat) : rowSum (zeros k) i = 0 := by
  unfold rowSum zeros
  by_cases hi : i < k <;> simp [List.getD_eq_getElem?_getD, hi]

theorem colSum_zeros (k j : Nat) : colSum (zeros k) j = 0 := by
  unfold colSum zeros
  by_cases hj : j < k <;> simp [List.getD_eq_getElem?_getD, hj]

/-- splitting a list four ways by two predicates -/
theorem count_four {β} (P Q : β → Prop) [DecidablePred P] [DecidablePred Q] (l : List β) :
    (l.filter fun x => P x).length =
      (l.filter fun x => P x ∧ Q x).length + (l.filter fun x => P x ∧ ¬ Q x).length ∧
    (l.filter fun x => Q x).length =
      (l.filter fun x => P x ∧ Q x).length + (l.filter fun x => ¬ P x ∧ Q x).length ∧
    l.length = (l.filter fun x => P x ∧ Q x).length + (l.filter fun x => P x ∧ ¬ Q x).length +
      (l.filter fun x => ¬ P x ∧ Q x).length + (l.filter fun x => ¬ P x ∧ ¬ Q x).length := by
  induction l with
  | nil => simp
  | cons x xs ih =>
    obtain ⟨h1, h2, h3⟩ := ih
    simp only [List.filter_cons, List.length_cons]
    by_cases hP : P x <;> by_cases hQ : Q x <;> simp [hP, hQ] <;> (simp at h1 h2 h3; omega)
end Labels


/-! ### regression helpers -/
section Field
variable {α : Type} [Field α] [LinearOrder α] [IsStrictOrderedRing α]

theorem absS_eq_abs (x : α) : absS x = |x| := by
  unfold absS
  split
  · rename_i h; rw [abs_of_neg h]
  · rename_i h; rw [abs_of_nonneg (not_lt.mp h)]

theorem maxS_eq_max (a b : α) : maxS a b = max a b := by
  unfold maxS
  split
  · rename_i h; rw [max_eq_right (le_of_lt h)]
  · rename_i h; rw [max_eq_left (not_lt.mp h)]

theorem meanS_eq (l : List α) (h : l ≠ []) : meanS l = some (l.sum / (l.length : α)) := by
  unfold meanS
  cases l with
  | nil => exact absurd rfl h
  | cons x xs => simp [sumS_eq_sum]

theorem meanS_some {l : List α} {m : α} (h : meanS l = some m) : l ≠ [] ∧ l.sum = (l.length : α) * m := by
  cases l with
  | nil => simp [meanS] at h
  | cons x xs =>
    refine ⟨by simp, ?_⟩
    rw [meanS_eq _ (by simp)] at h
    have hn : ((x :: xs).length : α) ≠ 0 := by
      simp only [List.length_cons]; positivity
    rw [← Option.some.inj h]; field_simp

/-- `Σ (x - m)² = Σ x² - 2 m Σ x + n m²` -/
theorem sqDevSum_expand (m : α) (l : List α) :
    sqDevSum m l = (l.map fun x => x * x).sum - 2 * m * l.sum + (l.length : α) * (m * m) := by
  unfold sqDevSum
  rw [sumS_eq_sum]
  induction l with
  | nil => simp
  | cons x xs ih => simp only [List.map_cons, List.sum_cons, List.length_cons, ih]; push_cast; ring
end Field

end LinfaSpec.Metrics
