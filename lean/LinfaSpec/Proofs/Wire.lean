import LinfaSpec.Model.Wire

/-!
Helper lemmas for the MessagePack wire model (C19): big-endian fields, headers, and the
decoder's behaviour on each header byte.  Core Lean only.
-/
namespace LinfaSpec.Wire

theorem length_beBytes (k n : Nat) : (beBytes k n).length = k := by
  induction k generalizing n with
  | zero => rfl
  | succ k ih => simp [beBytes, ih]

theorem beNat_append (xs : Bytes) (b : UInt8) : beNat (xs ++ [b]) = beNat xs * 256 + b.toNat := by
  simp [beNat, List.foldl_append]

theorem beNat_beBytes (k n : Nat) (h : n < 256 ^ k) : beNat (beBytes k n) = n := by
  induction k generalizing n with
  | zero => simp at h; subst h; rfl
  | succ k ih =>
    have h1 : n / 256 < 256 ^ k := by
      rw [Nat.div_lt_iff_lt_mul (by decide)]; rw [Nat.pow_succ] at h; exact h
    rw [beBytes, beNat_append, ih _ h1]
    have : (UInt8.ofNat (n % 256)).toNat = n % 256 := by
      simp [UInt8.toNat_ofNat']
    rw [this]; omega

theorem readBE_beBytes (k n : Nat) (rest : Bytes) (h : n < 256 ^ k) :
    readBE k (beBytes k n ++ rest) = some (n, rest) := by
  have hl := length_beBytes k n
  unfold readBE
  have : ¬ ((beBytes k n ++ rest).length < k) := by simp [hl]
  rw [if_neg this]
  have ht : (beBytes k n ++ rest).take k = beBytes k n := by
    rw [List.take_append_of_le_length (by omega)]; rw [List.take_of_length_le (by omega)]
  have hd : (beBytes k n ++ rest).drop k = rest := by
    rw [List.drop_append_of_le_length (by omega)]; rw [List.drop_of_length_le (by omega)]; simp
  rw [ht, hd, beNat_beBytes k n h]

theorem readBytes_append (s rest : Bytes) : readBytes s.length (s ++ rest) = some (s, rest) := by
  unfold readBytes
  have : ¬ ((s ++ rest).length < s.length) := by simp
  rw [if_neg this]
  simp

/-! decoder on constant header bytes -/
theorem decode_c0 (f : Nat) (r : Bytes) : decode (f+1) (0xc0 :: r) = some (.nil, r) := by simp [decode]
theorem decode_c2 (f : Nat) (r : Bytes) : decode (f+1) (0xc2 :: r) = some (.bool false, r) := by simp [decode]
theorem decode_c3 (f : Nat) (r : Bytes) : decode (f+1) (0xc3 :: r) = some (.bool true, r) := by simp [decode]
theorem decode_c4 (f : Nat) (r : Bytes) : decode (f+1) (0xc4 :: r) = withLen 1 r binBody := by simp [decode]
theorem decode_c5 (f : Nat) (r : Bytes) : decode (f+1) (0xc5 :: r) = withLen 2 r binBody := by simp [decode]
theorem decode_c6 (f : Nat) (r : Bytes) : decode (f+1) (0xc6 :: r) = withLen 4 r binBody := by simp [decode]
theorem decode_ca (f : Nat) (r : Bytes) : decode (f+1) (0xca :: r) = withLen 4 r (fun n r => some (.f32 (UInt32.ofNat n), r)) := by simp [decode]
theorem decode_cb (f : Nat) (r : Bytes) : decode (f+1) (0xcb :: r) = withLen 8 r (fun n r => some (.f64 (UInt64.ofNat n), r)) := by simp [decode]
theorem decode_cc (f : Nat) (r : Bytes) : decode (f+1) (0xcc :: r) = withLen 1 r (fun n r => some (.uint n, r)) := by simp [decode]
theorem decode_cd (f : Nat) (r : Bytes) : decode (f+1) (0xcd :: r) = withLen 2 r (fun n r => some (.uint n, r)) := by simp [decode]
theorem decode_ce (f : Nat) (r : Bytes) : decode (f+1) (0xce :: r) = withLen 4 r (fun n r => some (.uint n, r)) := by simp [decode]
theorem decode_cf (f : Nat) (r : Bytes) : decode (f+1) (0xcf :: r) = withLen 8 r (fun n r => some (.uint n, r)) := by simp [decode]
theorem decode_d0 (f : Nat) (r : Bytes) : decode (f+1) (0xd0 :: r) = withLen 1 r (fun n r => some (signedVal 1 n, r)) := by simp [decode]
theorem decode_d1 (f : Nat) (r : Bytes) : decode (f+1) (0xd1 :: r) = withLen 2 r (fun n r => some (signedVal 2 n, r)) := by simp [decode]
theorem decode_d2 (f : Nat) (r : Bytes) : decode (f+1) (0xd2 :: r) = withLen 4 r (fun n r => some (signedVal 4 n, r)) := by simp [decode]
theorem decode_d3 (f : Nat) (r : Bytes) : decode (f+1) (0xd3 :: r) = withLen 8 r (fun n r => some (signedVal 8 n, r)) := by simp [decode]
theorem decode_d9 (f : Nat) (r : Bytes) : decode (f+1) (0xd9 :: r) = withLen 1 r strBody := by simp [decode]
theorem decode_da (f : Nat) (r : Bytes) : decode (f+1) (0xda :: r) = withLen 2 r strBody := by simp [decode]
theorem decode_db (f : Nat) (r : Bytes) : decode (f+1) (0xdb :: r) = withLen 4 r strBody := by simp [decode]
theorem decode_dc (f : Nat) (r : Bytes) : decode (f+1) (0xdc :: r) = withLen 2 r (arrBody (decode f)) := by simp [decode]
theorem decode_dd (f : Nat) (r : Bytes) : decode (f+1) (0xdd :: r) = withLen 4 r (arrBody (decode f)) := by simp [decode]
theorem decode_de (f : Nat) (r : Bytes) : decode (f+1) (0xde :: r) = withLen 2 r (mapBody (decode f)) := by simp [decode]
theorem decode_df (f : Nat) (r : Bytes) : decode (f+1) (0xdf :: r) = withLen 4 r (mapBody (decode f)) := by simp [decode]

theorem toNat_ofNat_lt (n : Nat) (h : n < 256) : (UInt8.ofNat n).toNat = n := by
  simp [UInt8.toNat_ofNat']; omega

set_option maxRecDepth 8192 in
theorem decode_posfix (f n : Nat) (r : Bytes) (h : n < 128) :
    decode (f+1) (UInt8.ofNat n :: r) = some (.uint n, r) := by
  rw [decode]; simp only [toNat_ofNat_lt n (by omega)]
  rw [if_pos (by omega)]

set_option maxRecDepth 8192 in
theorem decode_fixmap (f n : Nat) (r : Bytes) (h : n < 16) :
    decode (f+1) (UInt8.ofNat (0x80 + n) :: r) = mapBody (decode f) n r := by
  rw [decode]; simp only [toNat_ofNat_lt (0x80 + n) (by omega)]
  rw [if_neg (by omega), if_pos (by omega)]
  congr 1; omega

set_option maxRecDepth 8192 in
theorem decode_fixarr (f n : Nat) (r : Bytes) (h : n < 16) :
    decode (f+1) (UInt8.ofNat (0x90 + n) :: r) = arrBody (decode f) n r := by
  rw [decode]; simp only [toNat_ofNat_lt (0x90 + n) (by omega)]
  rw [if_neg (by omega), if_neg (by omega), if_pos (by omega)]
  congr 1; omega

set_option maxRecDepth 8192 in
theorem decode_fixstr (f n : Nat) (r : Bytes) (h : n < 32) :
    decode (f+1) (UInt8.ofNat (0xa0 + n) :: r) = strBody n r := by
  rw [decode]; simp only [toNat_ofNat_lt (0xa0 + n) (by omega)]
  rw [if_neg (by omega), if_neg (by omega), if_neg (by omega), if_pos (by omega)]
  congr 1; omega

set_option maxRecDepth 8192 in
theorem decode_negfix (f n : Nat) (r : Bytes) (h : n < 32) :
    decode (f+1) (UInt8.ofNat (255 - n) :: r) = some (.nint n, r) := by
  rw [decode]; simp only [toNat_ofNat_lt (255 - n) (by omega)]
  repeat rw [if_neg (by omega)]
  rw [if_pos (by omega)]
  congr 3; omega


end LinfaSpec.Wire
