import LinfaSpec.Model.Wire

/-!
Helper lemmas for the MessagePack wire model (C19): big-endian fields, headers, and the
decoder's behaviour on each header byte.  Core Lean only.
-/
namespace LinfaSpec.Wire

theorem length_beBytes (k n : Nat) : (beBytes k n).length = k := by
  induction k generalizing n with
  | zero => rfl
  | succ k ih => simp [beBytes, ih]

theorem beNat_append (xs : Bytes) (b : UInt8) : beNat (xs ++ [b]) = beNat xs * 256 + b.toNat := by
  simp [beNat, List.foldl_append]

theorem beNat_beBytes (k n : Nat) (h : n < 256 ^ k) : beNat (beBytes k n) = n := by
  induction k generalizing n with
  | zero => simp at h; subst h; rfl
  | succ k ih =>
    have h1 : n / 256 < 256 ^ k := by
      rw [Nat.div_lt_iff_lt_mul (by decide)]; rw [Nat.pow_succ] at h; exact h
    rw [beBytes, beNat_append, ih _ h1]
    have : (UInt8.ofNat (n % 256)).toNat = n % 256 := by
      simp [UInt8.toNat_ofNat']
    rw [this]; omega

theorem readBE_beBytes (k n : Nat) (rest : Bytes) (h : n < 256 ^ k) :
    readBE k (beBytes k n ++ rest) = some (n, rest) := by
  have hl := length_beBytes k n
  unfold readBE
  have : ¬ ((beBytes k n ++ rest).length < k) := by simp [hl]
  rw [if_neg this]
  have ht : (beBytes k n ++ rest).take k = beBytes k n := by
    rw [List.take_append_of_le_length (by omega)]; rw [List.take_of_length_le (by omega)]
  have hd : (beBytes k n ++ rest).drop k = rest := by
    rw [List.drop_append_of_le_length (by omega)]; rw [List.drop_of_length_le (by omega)]; simp
  rw [ht, hd, beNat_beBytes k n h]

theorem readBytes_append (s rest : Bytes) : readBytes s.length (s ++ rest) = some (s, rest) := by
  unfold readBytes
  have : ¬ ((s ++ rest).length < s.length) := by simp
  rw [if_neg this]
  simp

/-! decoder on constant header bytes -/
theorem decode_c0 (f : Nat) (r : Bytes) : decode (f+1) (0xc0 :: r) = some (.nil, r) := by simp [decode]
theorem decode_c2 (f : Nat) (r : Bytes) : decode (f+1) (0xc2 :: r) = some (.bool false, r) := by simp [decode]
theorem decode_c3 (f : Nat) (r : Bytes) : decode (f+1) (0xc3 :: r) = some (.bool true, r) := by simp [decode]
theorem decode_c4 (f : Nat) (r : Bytes) : decode (f+1) (0xc4 :: r) = withLen 1 r binBody := by simp [decode]
theorem decode_c5 (f : Nat) (r : Bytes) : decode (f+1) (0xc5 :: r) = withLen 2 r binBody := by simp [decode]
theorem decode_c6 (f : Nat) (r : Bytes) : decode (f+1) (0xc6 :: r) = withLen 4 r binBody := by simp [decode]
theorem decode_ca (f : Nat) (r : Bytes) : decode (f+1) (0xca :: r) = withLen 4 r (fun n r => some (.f32 (UInt32.ofNat n), r)) := by simp [decode]
theorem decode_cb (f : Nat) (r : Bytes) : decode (f+1) (0xcb :: r) = withLen 8 r (fun n r => some (.f64 (UInt64.ofNat n), r)) := by simp [decode]
theorem decode_cc (f : Nat) (r : Bytes) : decode (f+1) (0xcc :: r) = withLen 1 r (fun n r => some (.uint n, r)) := by simp [decode]
theorem decode_cd (f : Nat) (r : Bytes) : decode (f+1) (0xcd :: r) = withLen 2 r (fun n r => some (.uint n, r)) := by simp [decode]
theorem decode_ce (f : Nat) (r : Bytes) : decode (f+1) (0xce :: r) = withLen 4 r (fun n r => some (.uint n, r)) := by simp [decode]
theorem decode_cf (f : Nat) (r : Bytes) : decode (f+1) (0xcf :: r) = withLen 8 r (fun n r => some (.uint n, r)) := by simp [decode]
theorem decode_d0 (f : Nat) (r : Bytes) : decode (f+1) (0xd0 :: r) = withLen 1 r (fun n r => some (signedVal 1 n, r)) := by simp [decode]
theorem decode_d1 (f : Nat) (r : Bytes) : decode (f+1) (0xd1 :: r) = withLen 2 r (fun n r => some (signedVal 2 n, r)) := by simp [decode]
theorem decode_d2 (f : Nat) (r : Bytes) : decode (f+1) (0xd2 :: r) = withLen 4 r (fun n r => some (signedVal 4 n, r)) := by simp [decode]
theorem decode_d3 (f : Nat) (r : Bytes) : decode (f+1) (0xd3 :: r) = withLen 8 r (fun n r => some (signedVal 8 n, r)) := by simp [decode]
theorem decode_d9 (f : Nat) (r : Bytes) : decode (f+1) (0xd9 :: r) = withLen 1 r strBody := by simp [decode]
theorem decode_da (f : Nat) (r : Bytes) : decode (f+1) (0xda :: r) = withLen 2 r strBody := by simp [decode]
theorem decode_db (f : Nat) (r : Bytes) : decode (f+1) (0xdb :: r) = withLen 4 r strBody := by simp [decode]
theorem decode_dc (f : Nat) (r : Bytes) : decode (f+1) (0xdc :: r) = withLen 2 r (arrBody (decode f)) := by simp [decode]
theorem decode_dd (f : Nat) (r : Bytes) : decode (f+1) (0xdd :: r) = withLen 4 r (arrBody (decode f)) := by simp [decode]
theorem decode_de (f : Nat) (r : Bytes) : decode (f+1) (0xde :: r) = withLen 2 r (mapBody (decode f)) := by simp [decode]
theorem decode_df (f : Nat) (r : Bytes) : decode (f+1) (0xdf :: r) = withLen 4 r (mapBody (decode f)) := by simp [decode]

theorem toNat_ofNat_lt (n : Nat) (h : n < 256) : (UInt8.ofNat n).toNat = n := by
  simp [UInt8.toNat_ofNat']; omega

set_option maxRecDepth 8192 in
theorem decode_posfix (f n : Nat) (r : Bytes) (h : n < 128) :
    decode (f+1) (UInt8.ofNat n :: r) = some (.uint n, r) := by
  rw [decode]; simp only [toNat_ofNat_lt n (by omega)]
  rw [if_pos (by omega)]

set_option maxRecDepth 8192 in
theorem decode_fixmap (f n : Nat) (r : Bytes) (h : n < 16) :
    decode (f+1) (UInt8.ofNat (0x80 + n) :: r) = mapBody (decode f) n r := by
  rw [decode]; simp only [toNat_ofNat_lt (0x80 + n) (by omega)]
  rw [if_neg (by omega), if_pos (by omega)]
  congr 1; omega

set_option maxRecDepth 8192 in
theorem decode_fixarr (f n : Nat) (r : Bytes) (h : n < 16) :
    decode (f+1) (UInt8.ofNat (0x90 + n) :: r) = arrBody (decode f) n r := by
  rw [decode]; simp only [toNat_ofNat_lt (0x90 + n) (by omega)]
  rw [if_neg (by omega), if_neg (by omega), if_pos (by omega)]
  congr 1; omega

set_option maxRecDepth 8192 in
theorem decode_fixstr (f n : Nat) (r : Bytes) (h : n < 32) :
    decode (f+1) (UInt8.ofNat (0xa0 + n) :: r) = strBody n r := by
  rw [decode]; simp only [toNat_ofNat_lt (0xa0 + n) (by omega)]
  rw [if_neg (by omega), if_neg (by omega), if_neg (by omega), if_pos (by omega)]
  congr 1; omega

set_option maxRecDepth 8192 in
theorem decode_negfix (f n : Nat) (r : Bytes) (h : n < 32) :
    decode (f+1) (UInt8.ofNat (255 - n) :: r) = some (.nint n, r) := by
  rw [decode]; simp only [toNat_ofNat_lt (255 - n) (by omega)]
  repeat rw [if_neg (by omega)]
  rw [if_pos (by omega)]
  congr 3; omega


theorem withLen_beBytes (k n : Nat) (rest : Bytes) (f : Nat → Bytes → Option (Val × Bytes)) (h : n < 256 ^ k) :
    withLen k (beBytes k n ++ rest) f = f n rest := by
  simp [withLen, readBE_beBytes k n rest h]

theorem strBody_append (s rest : Bytes) : strBody s.length (s ++ rest) = some (.str s, rest) := by
  simp [strBody, readBytes_append]
theorem binBody_append (s rest : Bytes) : binBody s.length (s ++ rest) = some (.bin s, rest) := by
  simp [binBody, readBytes_append]

theorem dec_uint (n : Nat) (rest : Bytes) (f : Nat) (h : n < 18446744073709551616) :
    decode (f+1) (encUInt n ++ rest) = some (.uint n, rest) := by
  unfold encUInt
  split
  · simp only [List.cons_append, List.nil_append]; exact decode_posfix f n rest (by omega)
  split
  · simp only [List.cons_append]; rw [decode_cc, withLen_beBytes 1 n rest _ (by omega)]
  split
  · simp only [List.cons_append]; rw [decode_cd, withLen_beBytes 2 n rest _ (by omega)]
  split
  · simp only [List.cons_append]; rw [decode_ce, withLen_beBytes 4 n rest _ (by omega)]
  · simp only [List.cons_append]; rw [decode_cf, withLen_beBytes 8 n rest _ (by omega)]

theorem dec_nint (n : Nat) (rest : Bytes) (f : Nat) (h : n < 9223372036854775808) :
    decode (f+1) (encNInt n ++ rest) = some (.nint n, rest) := by
  unfold encNInt
  split
  · simp only [List.cons_append, List.nil_append]; exact decode_negfix f n rest (by omega)
  split
  · simp only [List.cons_append]; rw [decode_d0, withLen_beBytes 1 _ rest _ (by omega)]
    simp only [signedVal]; rw [if_neg (by omega)]; congr 3; omega
  split
  · simp only [List.cons_append]; rw [decode_d1, withLen_beBytes 2 _ rest _ (by omega)]
    simp only [signedVal]; rw [if_neg (by omega)]; congr 3; omega
  split
  · simp only [List.cons_append]; rw [decode_d2, withLen_beBytes 4 _ rest _ (by omega)]
    simp only [signedVal]; rw [if_neg (by omega)]; congr 3; omega
  · simp only [List.cons_append]; rw [decode_d3, withLen_beBytes 8 _ rest _ (by omega)]
    simp only [signedVal]; rw [if_neg (by omega)]; congr 3; omega

theorem dec_f32 (b : UInt32) (rest : Bytes) (f : Nat) :
    decode (f+1) ((0xca :: beBytes 4 b.toNat) ++ rest) = some (.f32 b, rest) := by
  have := b.toNat_lt
  simp only [List.cons_append]
  rw [decode_ca, withLen_beBytes 4 _ rest _ (by omega)]; simp

theorem dec_f64 (b : UInt64) (rest : Bytes) (f : Nat) :
    decode (f+1) ((0xcb :: beBytes 8 b.toNat) ++ rest) = some (.f64 b, rest) := by
  have := b.toNat_lt
  simp only [List.cons_append]
  rw [decode_cb, withLen_beBytes 8 _ rest _ (by omega)]; simp

theorem dec_str (s rest : Bytes) (f : Nat) (h : s.length < 4294967296) :
    decode (f+1) (strHdr s.length ++ s ++ rest) = some (.str s, rest) := by
  unfold strHdr
  split
  · simp only [List.cons_append, List.nil_append]
    rw [decode_fixstr f _ _ (by omega)]; exact strBody_append s rest
  split
  · simp only [List.cons_append, List.append_assoc]; rw [decode_d9, withLen_beBytes 1 _ _ _ (by omega)]; exact strBody_append s rest
  split
  · simp only [List.cons_append, List.append_assoc]; rw [decode_da, withLen_beBytes 2 _ _ _ (by omega)]; exact strBody_append s rest
  · simp only [List.cons_append, List.append_assoc]; rw [decode_db, withLen_beBytes 4 _ _ _ (by omega)]; exact strBody_append s rest

theorem dec_bin (s rest : Bytes) (f : Nat) (h : s.length < 4294967296) :
    decode (f+1) (binHdr s.length ++ s ++ rest) = some (.bin s, rest) := by
  unfold binHdr
  split
  · simp only [List.cons_append, List.append_assoc]; rw [decode_c4, withLen_beBytes 1 _ _ _ (by omega)]; exact binBody_append s rest
  split
  · simp only [List.cons_append, List.append_assoc]; rw [decode_c5, withLen_beBytes 2 _ _ _ (by omega)]; exact binBody_append s rest
  · simp only [List.cons_append, List.append_assoc]; rw [decode_c6, withLen_beBytes 4 _ _ _ (by omega)]; exact binBody_append s rest

/-- array header followed by anything: the decoder hands `n` and the tail to `arrBody` -/
theorem dec_arrHdr (n : Nat) (tail : Bytes) (f : Nat) (h : n < 4294967296) :
    decode (f+1) (arrHdr n ++ tail) = arrBody (decode f) n tail := by
  unfold arrHdr
  split
  · simp only [List.cons_append, List.nil_append]; exact decode_fixarr f n tail (by omega)
  split
  · simp only [List.cons_append]; rw [decode_dc, withLen_beBytes 2 _ _ _ (by omega)]
  · simp only [List.cons_append]; rw [decode_dd, withLen_beBytes 4 _ _ _ (by omega)]

theorem dec_mapHdr (n : Nat) (tail : Bytes) (f : Nat) (h : n < 4294967296) :
    decode (f+1) (mapHdr n ++ tail) = mapBody (decode f) n tail := by
  unfold mapHdr
  split
  · simp only [List.cons_append, List.nil_append]; exact decode_fixmap f n tail (by omega)
  split
  · simp only [List.cons_append]; rw [decode_de, withLen_beBytes 2 _ _ _ (by omega)]
  · simp only [List.cons_append]; rw [decode_df, withLen_beBytes 4 _ _ _ (by omega)]


theorem depth_pos (v : Val) : 1 ≤ v.depth := by
  cases v <;> simp [Val.depth]

mutual
theorem dec_enc : (v : Val) → ∀ (rest : Bytes) (f : Nat), v.wf = true → v.depth ≤ f →
    decode f (encode v ++ rest) = some (v, rest)
  | .nil, rest, f, _, hd => by
    obtain ⟨f, rfl⟩ : ∃ g, f = g + 1 := ⟨f - 1, by simp [Val.depth] at hd; omega⟩
    simp only [encode, List.cons_append, List.nil_append]; exact decode_c0 f rest
  | .bool false, rest, f, _, hd => by
    obtain ⟨f, rfl⟩ : ∃ g, f = g + 1 := ⟨f - 1, by simp [Val.depth] at hd; omega⟩
    simp only [encode, List.cons_append, List.nil_append]; exact decode_c2 f rest
  | .bool true, rest, f, _, hd => by
    obtain ⟨f, rfl⟩ : ∃ g, f = g + 1 := ⟨f - 1, by simp [Val.depth] at hd; omega⟩
    simp only [encode, List.cons_append, List.nil_append]; exact decode_c3 f rest
  | .uint n, rest, f, hw, hd => by
    obtain ⟨f, rfl⟩ : ∃ g, f = g + 1 := ⟨f - 1, by simp [Val.depth] at hd; omega⟩
    simp only [Val.wf, decide_eq_true_eq] at hw
    simp only [encode]; exact dec_uint n rest f hw
  | .nint n, rest, f, hw, hd => by
    obtain ⟨f, rfl⟩ : ∃ g, f = g + 1 := ⟨f - 1, by simp [Val.depth] at hd; omega⟩
    simp only [Val.wf, decide_eq_true_eq] at hw
    simp only [encode]; exact dec_nint n rest f hw
  | .f32 b, rest, f, _, hd => by
    obtain ⟨f, rfl⟩ : ∃ g, f = g + 1 := ⟨f - 1, by simp [Val.depth] at hd; omega⟩
    simp only [encode]; exact dec_f32 b rest f
  | .f64 b, rest, f, _, hd => by
    obtain ⟨f, rfl⟩ : ∃ g, f = g + 1 := ⟨f - 1, by simp [Val.depth] at hd; omega⟩
    simp only [encode]; exact dec_f64 b rest f
  | .str s, rest, f, hw, hd => by
    obtain ⟨f, rfl⟩ : ∃ g, f = g + 1 := ⟨f - 1, by simp [Val.depth] at hd; omega⟩
    simp only [Val.wf, decide_eq_true_eq] at hw
    simp only [encode]; exact dec_str s rest f hw
  | .bin s, rest, f, hw, hd => by
    obtain ⟨f, rfl⟩ : ∃ g, f = g + 1 := ⟨f - 1, by simp [Val.depth] at hd; omega⟩
    simp only [Val.wf, decide_eq_true_eq] at hw
    simp only [encode]; exact dec_bin s rest f hw
  | .arr xs, rest, f, hw, hd => by
    obtain ⟨f, rfl⟩ : ∃ g, f = g + 1 := ⟨f - 1, by simp [Val.depth] at hd; omega⟩
    simp only [Val.wf, Bool.and_eq_true, decide_eq_true_eq] at hw
    simp only [Val.depth] at hd
    simp only [encode, List.append_assoc]
    rw [dec_arrHdr _ _ f hw.1, arrBody, dec_encList xs rest f hw.2 (by omega)]
  | .map kvs, rest, f, hw, hd => by
    obtain ⟨f, rfl⟩ : ∃ g, f = g + 1 := ⟨f - 1, by simp [Val.depth] at hd; omega⟩
    simp only [Val.wf, Bool.and_eq_true, decide_eq_true_eq] at hw
    simp only [Val.depth] at hd
    simp only [encode, List.append_assoc]
    rw [dec_mapHdr _ _ f hw.1, mapBody, dec_encPairs kvs rest f hw.2 (by omega)]
theorem dec_encList : (xs : List Val) → ∀ (rest : Bytes) (f : Nat), wfList xs = true → depthList xs ≤ f →
    listOf (decode f) xs.length (encodeList xs ++ rest) = some (xs, rest)
  | [], rest, f, _, _ => by simp [listOf, encodeList]
  | x :: xs, rest, f, hw, hd => by
    simp only [wfList, Bool.and_eq_true] at hw
    simp only [depthList] at hd
    simp only [encodeList, List.length_cons, listOf, List.append_assoc]
    rw [dec_enc x _ f hw.1 (by omega)]
    simp only []
    rw [dec_encList xs rest f hw.2 (by omega)]
theorem dec_encPairs : (kvs : List (Val × Val)) → ∀ (rest : Bytes) (f : Nat), wfPairs kvs = true → depthPairs kvs ≤ f →
    pairsOf (decode f) kvs.length (encodePairs kvs ++ rest) = some (kvs, rest)
  | [], rest, f, _, _ => by simp [pairsOf, encodePairs]
  | (k, v) :: r, rest, f, hw, hd => by
    simp only [wfPairs, Bool.and_eq_true] at hw
    simp only [depthPairs] at hd
    simp only [encodePairs, List.length_cons, pairsOf, List.append_assoc]
    rw [dec_enc k _ f hw.1 (by omega)]
    simp only []
    rw [dec_enc v _ f hw.2.1 (by omega)]
    simp only []
    rw [dec_encPairs r rest f hw.2.2 (by omega)]
end


theorem arrHdr_pos (n : Nat) : 1 ≤ (arrHdr n).length := by
  unfold arrHdr; (repeat' split) <;> simp
theorem mapHdr_pos (n : Nat) : 1 ≤ (mapHdr n).length := by
  unfold mapHdr; (repeat' split) <;> simp

theorem encode_length_pos (v : Val) : 1 ≤ (encode v).length := by
  cases v with
  | nil => simp [encode]
  | bool b => cases b <;> simp [encode]
  | uint n => simp only [encode, encUInt]; (repeat' split) <;> simp
  | nint n => simp only [encode, encNInt]; (repeat' split) <;> simp
  | f32 b => simp [encode]
  | f64 b => simp [encode]
  | str s => simp only [encode, strHdr, List.length_append]; (repeat' split) <;> simp <;> omega
  | bin s => simp only [encode, binHdr, List.length_append]; (repeat' split) <;> simp <;> omega
  | arr xs => simp only [encode, List.length_append]; have := arrHdr_pos xs.length; omega
  | map kvs => simp only [encode, List.length_append]; have := mapHdr_pos kvs.length; omega

mutual
theorem depth_le : (v : Val) → v.depth ≤ (encode v).length
  | .arr xs => by
    simp only [Val.depth, encode, List.length_append]
    have := arrHdr_pos xs.length; have := depthList_le xs; omega
  | .map kvs => by
    simp only [Val.depth, encode, List.length_append]
    have := mapHdr_pos kvs.length; have := depthPairs_le kvs; omega
  | .nil => encode_length_pos _
  | .bool _ => encode_length_pos _
  | .uint _ => encode_length_pos _
  | .nint _ => encode_length_pos _
  | .f32 _ => encode_length_pos _
  | .f64 _ => encode_length_pos _
  | .str _ => encode_length_pos _
  | .bin _ => encode_length_pos _
theorem depthList_le : (xs : List Val) → depthList xs ≤ (encodeList xs).length
  | [] => by simp [depthList]
  | x :: xs => by
    simp only [depthList, encodeList, List.length_append]
    have := depth_le x; have := depthList_le xs; omega
theorem depthPairs_le : (kvs : List (Val × Val)) → depthPairs kvs ≤ (encodePairs kvs).length
  | [] => by simp [depthPairs]
  | (k, v) :: r => by
    simp only [depthPairs, encodePairs, List.length_append]
    have := depth_le k; have := depth_le v; have := depthPairs_le r; omega
end

theorem decodeAll_enc (v : Val) (hw : v.wf = true) : decodeAll (encode v) = some v := by
  have h := dec_enc v [] (encode v).length hw (depth_le v)
  simp only [List.append_nil] at h
  simp [decodeAll, h]


end LinfaSpec.Wire
