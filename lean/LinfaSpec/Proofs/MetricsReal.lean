import LinfaSpec.Proofs.Metrics
import Mathlib.Analysis.Real.Sqrt
import Mathlib.Analysis.SpecialFunctions.Log.Basic

/-! `ℝ` as a carrier of the transcendental primitives; the binary form of `mcc`. -/
namespace LinfaSpec.Metrics
open LinfaSpec

noncomputable instance : Transc ℝ := ⟨Real.sqrt, Real.exp, Real.log⟩

theorem mcc_two_by_two (a b c d : Nat) :
    (mcc [[a, b], [c, d]] : ℝ) =
      (2 * ((a : ℝ) * d - (b : ℝ) * c)) / Real.sqrt (2 * (((a : ℝ) + b) * ((c : ℝ) + d))) /
        Real.sqrt (2 * (((a : ℝ) + c) * ((b : ℝ) + d))) := by
  unfold mcc
  simp only [List.length_cons, List.length_nil, List.range_succ, List.range_zero, List.nil_append,
    List.cons_append, List.foldl_cons, List.foldl_nil, cellS, cell, rowSum, colSum, total,
    List.getD_cons_zero, List.getD_cons_succ, List.map_cons, List.map_nil, List.sum_cons, List.sum_nil,
    Transc.sqrt]
  push_cast
  congr 1
  · congr 1
    · ring
    · congr 1; ring
  · congr 1; ring
end LinfaSpec.Metrics
