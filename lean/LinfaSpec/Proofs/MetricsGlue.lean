import LinfaSpec.Proofs.Metrics
import LinfaSpec.Proofs.MetricsMore

/-!
Helper lemmas for C05, glue around the cores: the counting loop on pairs with labels outside the
class list (receivers whose label set is not recomputed from the data), and the own-cluster
accumulator of the silhouette without the sample itself.
-/
namespace LinfaSpec.Metrics
open LinfaSpec

section GlueP
variable {L : Type} [LinearOrder L]

theorem countStep_skip (cs : List L) (m : List (List Nat)) (p : L × L) (h : ¬ (p.1 ∈ cs ∧ p.2 ∈ cs)) :
    countStep cs m p = m := by
  unfold countStep
  cases h1 : indexOf p.1 cs with
  | none => rfl
  | some i =>
    cases h2 : indexOf p.2 cs with
    | none => rfl
    | some j =>
      exfalso; apply h
      have m1 : ∀ (x : L) (cs : List L) (i : Nat), indexOf x cs = some i → x ∈ cs := by
        intro x cs
        induction cs with
        | nil => intro i hi; simp [indexOf] at hi
        | cons y ys ih =>
          intro i hi
          rw [indexOf_cons] at hi
          by_cases hxy : x = y
          · simp [hxy]
          · simp only [hxy, if_false] at hi
            cases hr : indexOf x ys with
            | none => simp [hr] at hi
            | some k => exact List.mem_cons_of_mem _ (ih k hr)
      exact ⟨m1 _ _ _ h1, m1 _ _ _ h2⟩

/-- pairs with a label outside the class list do not touch the matrix (`flatten` drops them) -/
theorem countLoop_filter (cs : List L) (pairs : List (L × L)) :
    countLoop cs pairs = countLoop cs (pairs.filter fun p => decide (p.1 ∈ cs ∧ p.2 ∈ cs)) := by
  unfold countLoop
  generalize zeros cs.length = m
  induction pairs generalizing m with
  | nil => rfl
  | cons p ps ih =>
    rw [List.foldl_cons, List.filter_cons]
    by_cases hp : p.1 ∈ cs ∧ p.2 ∈ cs
    · simp only [hp, decide_true, if_true, List.foldl_cons, and_self]
      exact ih _
    · rw [countStep_skip cs m p hp]
      simp only [hp, decide_false]
      exact ih m

end GlueP

section Sil
variable {α : Type} [Field α]

theorem totalDist_excludes_self (d : List (List α)) (labels : List Nat) (i li : Nat)
    (hrow : (d.getD i [])[i]? = some 0) (hl : labels[i]? = some li) :
    totalDist d labels i li =
      ((((d.getD i []).zip labels).eraseIdx i).filterMap fun (x, lj) => if lj == li then some x else none).sum := by
  unfold totalDist
  rw [sumS_eq_sum]
  generalize hz : (d.getD i []).zip labels = z
  have hzi : z[i]? = some (0, li) := by
    rw [← hz, List.getElem?_zip_eq_some]; exact ⟨hrow, hl⟩
  have hlt : i < z.length := (List.getElem?_eq_some_iff.mp hzi).1
  have hget : z[i] = (0, li) := (List.getElem?_eq_some_iff.mp hzi).2
  have hsplit : z = z.take i ++ (0, li) :: z.drop (i + 1) := by
    rw [← hget, List.getElem_cons_drop hlt, List.take_append_drop]
  rw [List.eraseIdx_eq_take_drop_succ]
  conv_lhs => rw [hsplit]
  simp [List.filterMap_append, List.filterMap_cons]


theorem labelCount_excludes_self (labels : List Nat) (i li : Nat) (hl : labels[i]? = some li) :
    labelCount labels li - 1 = ((labels.eraseIdx i).filter (· == li)).length := by
  unfold labelCount
  have hlt : i < labels.length := (List.getElem?_eq_some_iff.mp hl).1
  have hget : labels[i] = li := (List.getElem?_eq_some_iff.mp hl).2
  have hsplit : labels = labels.take i ++ li :: labels.drop (i + 1) := by
    rw [← hget, List.getElem_cons_drop hlt, List.take_append_drop]
  rw [List.eraseIdx_eq_take_drop_succ]
  conv_lhs => rw [hsplit]
  simp [List.filter_append, List.filter_cons]

end Sil
end LinfaSpec.Metrics
