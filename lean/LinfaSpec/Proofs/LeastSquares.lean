/-
Helper lemmas for C11: the model's list sums / dot kernels over an ordered field,
list linear algebra (bilinearity, adjoint of `matVec`, Hölder ∞/1), and the scalar
inequalities behind weak duality.
-/
import LinfaSpec.Model.LeastSquares
import Mathlib.Tactic.Ring
import Mathlib.Tactic.Linarith
import Mathlib.Tactic.FieldSimp
import Mathlib.Algebra.Order.Field.Basic
import Mathlib.Algebra.Order.Ring.Abs

namespace LinfaSpec.LeastSquares
open LinfaSpec

variable {α : Type} [Field α] [LinearOrder α] [IsStrictOrderedRing α]

/-- the mathematical dot product the kernels compute -/
def dot (a b : List α) : α := (List.zipWith (· * ·) a b).sum

theorem foldl_add_eq (a : α) (l : List α) : l.foldl (· + ·) a = a + l.sum := by
  induction l generalizing a with
  | nil => simp
  | cons x xs ih => simp [ih, add_assoc]

theorem sumS_eq (l : List α) : sumS l = l.sum := by
  unfold sumS; rw [foldl_add_eq]; simp

theorem sumU8_eq (l : List α) (p0 p1 p2 p3 p4 p5 p6 p7 : α) :
    sumU8 l p0 p1 p2 p3 p4 p5 p6 p7 = (p0 + p1 + p2 + p3 + p4 + p5 + p6 + p7) + l.sum := by
  fun_induction sumU8 l p0 p1 p2 p3 p4 p5 p6 p7 with
  | case1 x0 x1 x2 x3 x4 x5 x6 x7 xs p0 p1 p2 p3 p4 p5 p6 p7 ih =>
    rw [ih]; simp only [List.sum_cons]; ring
  | case2 xs p0 p1 p2 p3 p4 p5 p6 p7 _ =>
    rw [foldl_add_eq]; ring

theorem sumU_eq (l : List α) : sumU l = l.sum := by
  unfold sumU; rw [sumU8_eq]; simp

theorem dotS_eq (a b : List α) : dotS a b = dot a b := by
  unfold dotS dot; rw [sumS_eq]

theorem dotU_eq (a b : List α) : dotU a b = dot a b := by
  unfold dotU dot; rw [sumU_eq]

theorem dotC_eq (c : Bool) (a b : List α) : dotC c a b = dot a b := by
  unfold dotC; split <;> simp [dotU_eq, dotS_eq]

theorem absS_eq (x : α) : absS x = |x| := by
  unfold absS
  split
  · rw [abs_of_neg]; assumption
  · rw [abs_of_nonneg]; exact le_of_not_gt ‹_›

theorem maxS_eq (a b : α) : maxS a b = max a b := by
  unfold maxS
  split
  · rw [max_eq_right (le_of_lt ‹_›)]
  · rw [max_eq_left (le_of_not_gt ‹_›)]

theorem half_eq : (half : α) = 1 / 2 := by
  unfold half; norm_num

theorem absS_fun : (absS : α → α) = fun x => |x| := funext absS_eq

/-! ### list linear algebra -/

@[simp] theorem dot_nil_left (b : List α) : dot [] b = 0 := by simp [dot]
@[simp] theorem dot_nil_right (a : List α) : dot a [] = 0 := by simp [dot]
@[simp] theorem dot_cons (x : α) (xs : List α) (y : α) (ys : List α) :
    dot (x :: xs) (y :: ys) = x * y + dot xs ys := by simp [dot]

theorem dot_comm (a b : List α) : dot a b = dot b a := by
  induction a generalizing b with
  | nil => simp
  | cons x xs ih => cases b with
    | nil => simp
    | cons y ys => simp [ih ys, mul_comm]

theorem dot_self_nonneg (a : List α) : 0 ≤ dot a a := by
  induction a with
  | nil => simp
  | cons x xs ih => simp only [dot_cons]; nlinarith [mul_self_nonneg x]

theorem dot_add_right (r a b : List α) (h : a.length = b.length) :
    dot r (List.zipWith (· + ·) a b) = dot r a + dot r b := by
  induction r generalizing a b with
  | nil => simp
  | cons x xs ih =>
    cases a with
    | nil => cases b with
      | nil => simp
      | cons _ _ => simp at h
    | cons p ps => cases b with
      | nil => simp at h
      | cons q qs =>
        simp only [List.zipWith_cons_cons, dot_cons]
        rw [ih ps qs (by simpa using h)]; ring

theorem dot_smul_right (k : α) (r a : List α) : dot r (a.map (k * ·)) = k * dot r a := by
  induction r generalizing a with
  | nil => simp
  | cons x xs ih => cases a with
    | nil => simp
    | cons p ps => simp only [List.map_cons, dot_cons, ih ps]; ring

theorem dot_replicate_zero (r : List α) (n : Nat) : dot r (List.replicate n 0) = 0 := by
  induction r generalizing n with
  | nil => simp
  | cons x xs ih => cases n with
    | zero => simp
    | succ m => simp [List.replicate_succ, ih m]

theorem matVec_length (n : Nat) (C : List (List α)) (w : List α) (hC : ∀ c ∈ C, c.length = n) :
    (matVec n C w).length = n := by
  induction C generalizing w with
  | nil => simp [matVec]
  | cons c C ih => cases w with
    | nil => simp [matVec]
    | cons wj w =>
      simp only [matVec, List.length_zipWith, List.length_map]
      rw [ih w (fun c' h => hC c' (List.mem_cons_of_mem _ h)), hC c (List.mem_cons_self)]
      simp

/-- adjoint identity `r · (X w) = (Xᵀ r) · w` -/
theorem dot_matVec (n : Nat) (C : List (List α)) (w r : List α) (hC : ∀ c ∈ C, c.length = n)
    (hw : w.length = C.length) :
    dot r (matVec n C w) = (List.zipWith (fun c wj => dot c r * wj) C w).sum := by
  induction C generalizing w with
  | nil => simp [matVec, dot_replicate_zero]
  | cons c C ih => cases w with
    | nil => simp at hw
    | cons wj w =>
      have hC' : ∀ c' ∈ C, c'.length = n := fun c' h => hC c' (List.mem_cons_of_mem _ h)
      simp only [matVec, List.zipWith_cons_cons, List.sum_cons]
      rw [dot_add_right _ _ _ (by rw [matVec_length n C w hC', List.length_map, hC c List.mem_cons_self]),
        dot_smul_right, ih w hC' (by simpa using hw), dot_comm r c]
      ring

theorem dot_residual0 (r y a : List α) (h : y.length = a.length) :
    dot r (List.zipWith (fun yi xi => yi - xi) y a) = dot r y - dot r a := by
  induction r generalizing y a with
  | nil => simp
  | cons x xs ih => cases y with
    | nil => cases a with
      | nil => simp
      | cons _ _ => simp at h
    | cons p ps => cases a with
      | nil => simp at h
      | cons q qs =>
        simp only [List.zipWith_cons_cons, dot_cons]
        rw [ih ps qs (by simpa using h)]; ring

/-- `½‖u‖² ≥ c·r·u − ½c²‖r‖²` (from `½(u − c r)² ≥ 0`, coordinate by coordinate) -/
theorem half_sq_ge (c : α) (u r : List α) (h : u.length = r.length) :
    c * dot r u - 1 / 2 * c ^ 2 * dot r r ≤ 1 / 2 * dot u u := by
  induction u generalizing r with
  | nil => cases r with
    | nil => simp
    | cons _ _ => simp at h
  | cons p ps ih => cases r with
    | nil => simp at h
    | cons q qs =>
      have := ih qs (by simpa using h)
      simp only [dot_cons]
      nlinarith [sq_nonneg (p - c * q)]

theorem normMax_aux (v : List α) (acc : α) :
    acc ≤ v.foldl (fun f x => maxS (absS x) f) acc ∧
      ∀ x ∈ v, |x| ≤ v.foldl (fun f x => maxS (absS x) f) acc := by
  induction v generalizing acc with
  | nil => simp
  | cons y ys ih =>
    simp only [List.foldl_cons, List.mem_cons]
    obtain ⟨h1, h2⟩ := ih (maxS (absS y) acc)
    rw [maxS_eq, absS_eq] at h1 h2 ⊢
    refine ⟨le_trans (le_max_right _ _) h1, ?_⟩
    rintro x (rfl | hx)
    · exact le_trans (le_max_left _ _) h1
    · exact h2 x hx

theorem le_normMax (v : List α) : ∀ x ∈ v, |x| ≤ normMax v := (normMax_aux v 0).2
theorem normMax_nonneg (v : List α) : 0 ≤ normMax v := (normMax_aux v 0).1

/-- Hölder ∞/1 on lists -/
theorem sum_abs_nonneg (b : List α) : 0 ≤ (b.map fun x => |x|).sum := by
  induction b with
  | nil => simp
  | cons y ys ih => simp only [List.map_cons, List.sum_cons]; linarith [abs_nonneg y]

theorem holder (a b : List α) (M : α) (hM0 : 0 ≤ M) (hM : ∀ x ∈ a, |x| ≤ M) :
    (List.zipWith (· * ·) a b).sum ≤ M * (b.map fun x => |x|).sum := by
  induction a generalizing b with
  | nil => simpa using mul_nonneg hM0 (sum_abs_nonneg b)
  | cons x xs ih => cases b with
    | nil => simp
    | cons y ys =>
      have h1 := ih ys (fun z hz => hM z (List.mem_cons_of_mem _ hz))
      have h2 : |x| ≤ M := hM x List.mem_cons_self
      simp only [List.zipWith_cons_cons, List.sum_cons, List.map_cons]
      have h3 : x * y ≤ |x| * |y| := by rw [← abs_mul]; exact le_abs_self _
      have h4 : |x| * |y| ≤ M * |y| := mul_le_mul_of_nonneg_right h2 (abs_nonneg y)
      linarith

/-- `(Xᵀr − l2 w) · w' = (Xᵀr)·w' − l2 (w·w')` -/
theorem xta_dot (C : List (List α)) (r w w' : List α) (l2 : α) (hw : w.length = C.length)
    (hw' : w'.length = C.length) :
    (List.zipWith (· * ·) (List.zipWith (fun c wj => dot c r - wj * l2) C w) w').sum =
      (List.zipWith (fun c wj => dot c r * wj) C w').sum - l2 * dot w w' := by
  induction C generalizing w w' with
  | nil =>
    have : w = [] := List.length_eq_zero_iff.mp (by simpa using hw)
    subst this; simp
  | cons c C ih => cases w with
    | nil => simp at hw
    | cons wj w => cases w' with
      | nil => simp at hw'
      | cons vj w' =>
        simp only [List.zipWith_cons_cons, List.sum_cons, dot_cons]
        rw [ih w w' (by simpa using hw) (by simpa using hw')]; ring

/-- **weak duality** for the elastic-net problem: for every scaling `c ≥ 0` of an arbitrary
vector `r` with `c·‖Xᵀr − l2 w‖_∞ ≤ l1`, the dual value is below the primal value at every `w'`. -/
theorem weak_duality (C : List (List α)) (y w w' r : List α) (l1 l2 c dn : α)
    (hC : ∀ c ∈ C, c.length = y.length) (hw : w.length = C.length) (hw' : w'.length = C.length)
    (hr : r.length = y.length) (hl2 : 0 ≤ l2) (hc : 0 ≤ c) (hcd : c * dn ≤ l1)
    (hdn0 : 0 ≤ dn)
    (hdn : ∀ x ∈ List.zipWith (fun cj wj => dot cj r - wj * l2) C w, |x| ≤ dn) :
    c * dot r y - 1 / 2 * c ^ 2 * dot r r - 1 / 2 * l2 * c ^ 2 * dot w w ≤
      1 / 2 * dot (List.zipWith (fun yi xi => yi - xi) y (matVec y.length C w'))
          (List.zipWith (fun yi xi => yi - xi) y (matVec y.length C w'))
        + l1 * (w'.map fun x => |x|).sum + 1 / 2 * l2 * dot w' w' := by
  set a := matVec y.length C w' with ha
  have hal : a.length = y.length := matVec_length _ _ _ hC
  set u := List.zipWith (fun yi xi => yi - xi) y a with hu
  have hul : u.length = r.length := by simp [hu, hal, hr]
  have f1 := half_sq_ge c u r hul
  have f1' : dot r u = dot r y - dot r a := dot_residual0 r y a hal.symm
  have f2 := half_sq_ge c w' w (by rw [hw, hw'])
  have f3 : dot r a = (List.zipWith (fun c wj => dot c r * wj) C w').sum := dot_matVec _ C w' r hC hw'
  have f4 := holder (List.zipWith (fun cj wj => dot cj r - wj * l2) C w) w' dn hdn0 hdn
  rw [xta_dot C r w w' l2 hw hw'] at f4
  have hN := sum_abs_nonneg w'
  have f5 : c * ((List.zipWith (fun c wj => dot c r * wj) C w').sum - l2 * dot w w') ≤
      l1 * (w'.map fun x => |x|).sum := by
    calc _ ≤ c * (dn * (w'.map fun x => |x|).sum) := mul_le_mul_of_nonneg_left f4 hc
      _ = (c * dn) * (w'.map fun x => |x|).sum := by ring
      _ ≤ _ := mul_le_mul_of_nonneg_right hcd hN
  have f2' := mul_le_mul_of_nonneg_left f2 hl2
  rw [f1', f3] at f1
  nlinarith [f1, f2', f5]

/-! ### exact KKT conditions make the reported gap vanish -/

theorem normMax_le (v : List α) (M : α) (hM0 : 0 ≤ M) (hM : ∀ x ∈ v, |x| ≤ M) : normMax v ≤ M := by
  unfold normMax
  suffices h : ∀ acc, acc ≤ M → v.foldl (fun f x => maxS (absS x) f) acc ≤ M from h 0 hM0
  induction v with
  | nil => intro acc h; simpa using h
  | cons y ys ih =>
    intro acc h
    simp only [List.foldl_cons]
    apply ih (fun x hx => hM x (List.mem_cons_of_mem _ hx))
    rw [maxS_eq, absS_eq]
    exact max_le (hM y List.mem_cons_self) h

theorem forall_mem_zipWith {β γ δ : Type} (f : β → γ → δ) (P : δ → Prop) (l1 : List β) (l2 : List γ)
    (h : ∀ p ∈ List.zip l1 l2, P (f p.1 p.2)) : ∀ x ∈ List.zipWith f l1 l2, P x := by
  induction l1 generalizing l2 with
  | nil => simp
  | cons a l1 ih => cases l2 with
    | nil => simp
    | cons b l2 =>
      intro x hx
      simp only [List.zipWith_cons_cons, List.mem_cons] at hx
      rcases hx with rfl | hx
      · exact h (a, b) (by simp)
      · exact ih l2 (fun p hp => h p (by simp only [List.zip_cons_cons]; exact List.mem_cons_of_mem _ hp)) x hx

/-- complementary slackness summed over the coordinates: `(Xᵀr)·w = l1‖w‖₁ + l2‖w‖²` -/
theorem kkt_sum (C : List (List α)) (r w : List α) (l1 l2 : α) (hw : w.length = C.length)
    (h : ∀ p ∈ List.zip C w, p.2 * (dot p.1 r - p.2 * l2) = l1 * |p.2|) :
    (List.zipWith (fun c wj => dot c r * wj) C w).sum = l1 * (w.map fun x => |x|).sum + l2 * dot w w := by
  induction C generalizing w with
  | nil =>
    have : w = [] := List.length_eq_zero_iff.mp (by simpa using hw)
    subst this; simp [dot]
  | cons c C ih => cases w with
    | nil => simp at hw
    | cons wj w =>
      have h0 := h (c, wj) (by simp)
      have := ih w (by simpa using hw) (fun p hp => h p (by simp only [List.zip_cons_cons]; exact List.mem_cons_of_mem _ hp))
      simp only [List.zipWith_cons_cons, List.sum_cons, List.map_cons, dot_cons, this]
      simp only [] at h0
      linarith

/-! ### intercept and normal equations -/

theorem dot_residual (b : α) (r y a : List α) (h : y.length = a.length) (hr : r.length = y.length) :
    dot r (List.zipWith (fun yi xi => yi - xi - b) y a) = dot r y - dot r a - b * r.sum := by
  induction r generalizing y a with
  | nil => simp
  | cons x xs ih => cases y with
    | nil => simp at hr
    | cons p ps => cases a with
      | nil => simp at h
      | cons q qs =>
        simp only [List.zipWith_cons_cons, dot_cons, List.sum_cons]
        rw [ih ps qs (by simpa using h) (by simpa using hr)]; ring

theorem sum_zipWith_zero (C : List (List α)) (r w : List α) (h : ∀ c ∈ C, dot c r = 0) :
    (List.zipWith (fun c wj => dot c r * wj) C w).sum = 0 := by
  induction C generalizing w with
  | nil => simp
  | cons c C ih => cases w with
    | nil => simp
    | cons wj w =>
      simp only [List.zipWith_cons_cons, List.sum_cons]
      rw [ih w (fun c' hc => h c' (List.mem_cons_of_mem _ hc)), h c List.mem_cons_self]; ring

theorem residual_length (C : List (List α)) (y w : List α) (b : α) (hC : ∀ c ∈ C, c.length = y.length) :
    (residual C y w b).length = y.length := by
  simp [residual, matVec_length _ _ _ hC]

theorem residual_shift (C : List (List α)) (y w : List α) (b : α) :
    residual C y w b = (residual C y w 0).map (· - b) := by
  simp [residual, List.map_zipWith]

/-- `Σ(vᵢ−b)² = Σ(vᵢ−m)² + 2(m−b)(Σv − n·m) + n(m−b)²` -/
theorem sum_sq_shift (v : List α) (b m : α) :
    dot (v.map (· - b)) (v.map (· - b)) =
      dot (v.map (· - m)) (v.map (· - m)) + 2 * (m - b) * (v.sum - (v.length : α) * m)
        + (v.length : α) * (m - b) ^ 2 := by
  induction v with
  | nil => simp
  | cons x xs ih =>
    simp only [List.map_cons, dot_cons, List.sum_cons, List.length_cons, Nat.cast_succ]
    rw [ih]; ring

/-- the scalar problem solved by one coordinate update -/
theorem soft_threshold_argmin (tmp thr den z : α) (hthr : 0 ≤ thr) (hden : 0 < den) :
    1 / 2 * den * (softThreshold tmp thr den) ^ 2 - tmp * softThreshold tmp thr den
        + thr * |softThreshold tmp thr den|
      ≤ 1 / 2 * den * z ^ 2 - tmp * z + thr * |z| := by
  unfold softThreshold signumS
  rw [maxS_eq, absS_eq]
  have hz1 : 0 ≤ thr * (|z| - z) := mul_nonneg hthr (sub_nonneg.2 (le_abs_self z))
  have hz2 : 0 ≤ thr * (|z| + z) := mul_nonneg hthr (by linarith [neg_abs_le z])
  by_cases hle : |tmp| - thr ≤ 0
  · -- below the threshold: the update is 0, and 0 is optimal
    rw [max_eq_right hle]
    have h0 : ∀ s : α, s * 0 / den = 0 := by intro s; simp
    rw [h0]
    simp only [ne_eq, OfNat.ofNat_ne_zero, not_false_eq_true, zero_pow, mul_zero, abs_zero, sub_self, add_zero]
    have h1 : tmp * z ≤ |tmp| * |z| := by rw [← abs_mul]; exact le_abs_self _
    have h2 : |tmp| * |z| ≤ thr * |z| := mul_le_mul_of_nonneg_right (by linarith) (abs_nonneg z)
    nlinarith [mul_nonneg hden.le (sq_nonneg z)]
  · have hgt : 0 < |tmp| - thr := lt_of_not_ge hle
    rw [max_eq_left hgt.le]
    by_cases hneg : tmp < 0
    · rw [if_pos hneg, abs_of_neg hneg]
      rw [abs_of_neg hneg] at hgt
      set ws := -1 * (-tmp - thr) / den with hws
      have hk : den * ws = tmp + thr := by rw [hws]; field_simp; ring
      have hwneg : ws < 0 := by
        rw [hws]; apply div_neg_of_neg_of_pos _ hden; linarith
      rw [abs_of_neg hwneg]
      nlinarith [mul_nonneg hden.le (sq_nonneg (z - ws)), hz2, hk]
    · rw [if_neg hneg]
      have hpos : 0 ≤ tmp := le_of_not_gt hneg
      rw [abs_of_nonneg hpos] at hgt ⊢
      set ws := 1 * (tmp - thr) / den with hws
      have hk : den * ws = tmp - thr := by rw [hws]; field_simp
      have hwpos : 0 < ws := by
        rw [hws]; apply div_pos _ hden; linarith
      rw [abs_of_pos hwpos]
      nlinarith [mul_nonneg hden.le (sq_nonneg (z - ws)), hz1, hk]

theorem soft_threshold_zero (tmp thr den : α) (h : |tmp| ≤ thr) : softThreshold tmp thr den = 0 := by
  unfold softThreshold
  rw [maxS_eq, absS_eq, max_eq_right (by linarith)]
  simp

/-! ### centred designs -/

theorem sum_zipWith_add (a b : List α) (h : a.length = b.length) :
    (List.zipWith (· + ·) a b).sum = a.sum + b.sum := by
  induction a generalizing b with
  | nil => cases b with
    | nil => simp
    | cons _ _ => simp at h
  | cons x xs ih => cases b with
    | nil => simp at h
    | cons y ys =>
      simp only [List.zipWith_cons_cons, List.sum_cons]
      rw [ih ys (by simpa using h)]; ring

theorem sum_map_mul (k : α) (a : List α) : (a.map (k * ·)).sum = k * a.sum := by
  induction a with
  | nil => simp
  | cons x xs ih => simp only [List.map_cons, List.sum_cons, ih]; ring

theorem sum_matVec_centred (n : Nat) (C : List (List α)) (w : List α) (hC : ∀ c ∈ C, c.length = n)
    (hcen : ∀ c ∈ C, c.sum = 0) : (matVec n C w).sum = 0 := by
  induction C generalizing w with
  | nil => simp [matVec]
  | cons c C ih => cases w with
    | nil => simp [matVec]
    | cons wj w =>
      have hC' : ∀ c' ∈ C, c'.length = n := fun c' h => hC c' (List.mem_cons_of_mem _ h)
      simp only [matVec]
      rw [sum_zipWith_add _ _ (by rw [matVec_length n C w hC', List.length_map, hC c List.mem_cons_self]),
        sum_map_mul, hcen c List.mem_cons_self, ih w hC' (fun c' h => hcen c' (List.mem_cons_of_mem _ h))]
      ring

theorem sum_residual (b : α) (y a : List α) (h : y.length = a.length) :
    (List.zipWith (fun yi xi => yi - xi - b) y a).sum = y.sum - a.sum - (y.length : α) * b := by
  induction y generalizing a with
  | nil => cases a with
    | nil => simp
    | cons _ _ => simp at h
  | cons p ps ih => cases a with
    | nil => simp at h
    | cons q qs =>
      simp only [List.zipWith_cons_cons, List.sum_cons, List.length_cons, Nat.cast_succ]
      rw [ih qs (by simpa using h)]; ring

theorem sum_map_sub (y : List α) (m : α) : (y.map (· - m)).sum = y.sum - (y.length : α) * m := by
  induction y with
  | nil => simp
  | cons p ps ih => simp only [List.map_cons, List.sum_cons, List.length_cons, Nat.cast_succ, ih]; ring

theorem residual_centre (C : List (List α)) (y w : List α) (m b : α) :
    residual C y w b = (residual C (y.map (· - m)) w 0).map (· - (b - m)) := by
  simp only [residual, List.length_map, List.map_zipWith, List.zipWith_map_left]
  congr 1; funext yi xi; ring

/-! ### the residual invariant of coordinate descent (with `eps = 0`)

`r = y − Xw` is preserved by the loop body, hence by a sweep and by the whole `while`; so when the loop is
left by its `break`, the reported gap is the duality gap of the returned coefficients. -/

theorem zipWith_add_assoc (a b c : List α) (h1 : a.length = b.length) (h2 : b.length = c.length) :
    List.zipWith (· + ·) a (List.zipWith (· + ·) b c) = List.zipWith (· + ·) (List.zipWith (· + ·) a b) c := by
  apply List.ext_getElem (by simp [h1, h2])
  intro i h _
  simp [add_assoc]

theorem matVec_set (n : Nat) (C : List (List α)) (w : List α) (j : Nat) (v : α) (cj : List α)
    (hC : ∀ c ∈ C, c.length = n) (hw : w.length = C.length) (hcj : C[j]? = some cj) :
    matVec n C (w.set j v)
      = List.zipWith (· + ·) (matVec n C w) (cj.map ((v - w.getD j 0) * ·)) := by
  induction C generalizing w j with
  | nil => simp at hcj
  | cons c C ih =>
    cases w with
    | nil => simp at hw
    | cons w0 w =>
      have hc : c.length = n := hC c (by simp)
      have hC' : ∀ c ∈ C, c.length = n := fun c hc => hC c (by simp [hc])
      have hw' : w.length = C.length := by simpa using hw
      have hM : (matVec n C w).length = n := matVec_length n C w hC'
      cases j with
      | zero =>
        simp only [List.getElem?_cons_zero, Option.some.injEq] at hcj
        subst hcj
        simp only [List.set_cons_zero, matVec, List.getD_cons_zero]
        apply List.ext_getElem (by simp [hc, hM])
        intro i h _
        simp only [List.getElem_zipWith, List.getElem_map]
        ring
      | succ j =>
        simp only [List.getElem?_cons_succ] at hcj
        have hcjl : cj.length = n := hC' cj (List.mem_of_getElem? hcj)
        simp only [List.set_cons_succ, matVec, List.getD_cons_succ]
        rw [ih w j hC' hw' hcj]
        apply zipWith_add_assoc
        · simp [hc, hM]
        · simp [hM, hcjl]

theorem matVec_replicate_zero (n : Nat) (C : List (List α)) (hC : ∀ c ∈ C, c.length = n) :
    matVec n C (List.replicate C.length 0) = List.replicate n 0 := by
  induction C with
  | nil => simp [matVec]
  | cons c C ih =>
    have hc : c.length = n := hC c (by simp)
    have hC' : ∀ c ∈ C, c.length = n := fun c hc => hC c (by simp [hc])
    simp only [List.length_cons, List.replicate_succ, matVec, ih hC']
    apply List.ext_getElem (by simp [hc])
    intro i h _
    simp

theorem residual_zero_start (C : List (List α)) (y : List α) (hC : ∀ c ∈ C, c.length = y.length) :
    residual C y (List.replicate C.length 0) 0 = y := by
  unfold residual
  rw [matVec_replicate_zero _ C hC]
  apply List.ext_getElem (by simp)
  intro i h _
  simp

theorem axpy_if_zero (a : α) (x r : List α) (h : x.length = r.length) :
    (if absS a ≤ 0 then r else axpy a x r) = axpy a x r := by
  split
  · rename_i h0
    rw [absS_eq] at h0
    have : a = 0 := abs_nonpos_iff.mp h0
    subst this
    unfold axpy
    apply List.ext_getElem (by simp [h])
    intro i _ _
    simp
  · rfl

theorem axpy_if_zero_neg (a : α) (x r : List α) (h : x.length = r.length) :
    (if absS a ≤ 0 then r else axpy (-a) x r) = axpy (-a) x r := by
  split
  · rename_i h0
    rw [absS_eq] at h0
    have : a = 0 := abs_nonpos_iff.mp h0
    subst this
    unfold axpy
    apply List.ext_getElem (by simp [h])
    intro i _ _
    simp
  · rfl

/-- the invariant of the descent: the running residual is the residual of the running coefficients -/
def CdInv (C : List (List α)) (y : List α) (st : CdState α) : Prop :=
  st.r = residual C y st.w 0 ∧ st.w.length = C.length

theorem cdCoord_inv (contig : Bool) (thr denAdd : α) (C : List (List α)) (y : List α) (st : CdState α)
    (j : Nat) (cj : List α) (nrm : α) (hC : ∀ c ∈ C, c.length = y.length) (hcj : C[j]? = some cj)
    (h : CdInv C y st) : CdInv C y (cdCoord contig thr denAdd st j cj nrm) := by
  obtain ⟨hr, hw⟩ := h
  unfold cdCoord
  split
  · exact ⟨hr, hw⟩
  · have hcjl : cj.length = y.length := hC cj (List.mem_of_getElem? hcj)
    have hrl : st.r.length = y.length := by rw [hr]; exact residual_length C y st.w 0 hC
    have hM : (matVec y.length C st.w).length = y.length := matVec_length _ C st.w hC
    refine ⟨?_, by simp [hw]⟩
    simp only []
    rw [axpy_if_zero _ cj st.r (by rw [hcjl, hrl])]
    generalize hwj : softThreshold (dotC contig cj (axpy (st.w.getD j 0) cj st.r)) thr (nrm + denAdd) = wj
    rw [axpy_if_zero_neg _ cj _ (by simp [axpy, hcjl, hrl])]
    unfold residual
    rw [matVec_set _ C st.w j wj cj hC hw hcj]
    rw [hr]
    unfold residual axpy
    apply List.ext_getElem (by simp [hM, hcjl])
    intro i h1 h2
    simp only [List.getElem_zipWith, List.getElem_map]
    ring

theorem cdSweepGo_inv (contig : Bool) (thr denAdd : α) (C : List (List α)) (y : List α)
    (hC : ∀ c ∈ C, c.length = y.length) (Cr : List (List α)) :
    ∀ (j : Nat) (ns : List α) (st : CdState α), (∀ k, Cr[k]? = C[j + k]?) → CdInv C y st →
      CdInv C y (cdSweepGo contig thr denAdd j Cr ns st) := by
  induction Cr with
  | nil => intro j ns st _ h; simpa [cdSweepGo] using h
  | cons c Cr ih =>
    intro j ns st hk h
    cases ns with
    | nil => simpa [cdSweepGo] using h
    | cons nrm ns =>
      simp only [cdSweepGo]
      apply ih
      · intro k
        have := hk (k + 1)
        simp only [List.getElem?_cons_succ] at this
        rw [this]; congr 1; omega
      · apply cdCoord_inv contig thr denAdd C y st j c nrm hC _ h
        have := hk 0
        simpa using this.symm

theorem cdLoop_certificate (contig : Bool) (eps thr denAdd : α) (C : List (List α)) (norms y : List α)
    (n tol tolS l1r pen : α) (maxSteps : Nat) (hC : ∀ c ∈ C, c.length = y.length) :
    ∀ (fuel steps : Nat) (w r : List α) (gap : α) (w' : List α) (g' : α) (s' : Nat),
      r = residual C y w 0 → w.length = C.length →
      cdLoop contig eps thr denAdd C norms y n tol tolS l1r pen maxSteps fuel steps w r gap = (w', g', s') →
      w'.length = C.length ∧ s' ≤ steps + fuel ∧
        (s' < steps + fuel → g' = dualityGap contig C y w' (residual C y w' 0) l1r pen n ∧ g' < tolS) := by
  intro fuel
  induction fuel with
  | zero =>
    intro steps w r gap w' g' s' _ hw h
    simp only [cdLoop, Prod.mk.injEq] at h
    obtain ⟨rfl, rfl, rfl⟩ := h
    exact ⟨hw, le_refl _, fun h => absurd h (lt_irrefl _)⟩
  | succ fuel ih =>
    intro steps w r gap w' g' s' hr hw h
    have hinv : CdInv C y (cdSweep contig thr denAdd C norms w r) := by
      unfold cdSweep
      exact cdSweepGo_inv contig thr denAdd C y hC C 0 norms _ (fun k => by simp) ⟨hr, hw⟩
    simp only [cdLoop] at h
    generalize cdSweep contig thr denAdd C norms w r = st at hinv h
    obtain ⟨hsr, hsw⟩ := hinv
    split at h
    · split at h
      · rename_i hg
        simp only [Prod.mk.injEq] at h
        obtain ⟨rfl, rfl, rfl⟩ := h
        refine ⟨hsw, by omega, fun _ => ⟨by rw [hsr], hg⟩⟩
      · have := ih (steps + 1) st.w st.r _ w' g' s' hsr hsw h
        refine ⟨this.1, by omega, fun hlt => this.2.2 (by omega)⟩
    · have := ih (steps + 1) st.w st.r _ w' g' s' hsr hsw h
      refine ⟨this.1, by omega, fun hlt => this.2.2 (by omega)⟩

end LinfaSpec.LeastSquares
