import LinfaSpec.Drv.C04
import LinfaSpec.Drv.Loop

def main : IO Unit := LinfaSpec.Drv.run fun
  | "C04" :: rest => LinfaSpec.Drv.C04.handle rest
  | _ => "bad-op"
