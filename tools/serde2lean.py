#!/usr/bin/env python3
"""
Translator for C19: lists every type of ../repo that derives serde's Serialize/Deserialize
(directly or through `cfg_attr(feature = "serde", derive(..))`), with its fields / variants and the
per-field serde attributes (skip, bound, default, with, rename), and writes

    lean/LinfaSpec/Gen/C19Types.lean   the table the Lean driver checks decoded wire values against
    lean/LinfaSpec/Gen/C19Types.tsv    the same table for the harness (coverage of its sweep)

Both files are regenerated on every `./check --setup` / `./check C19`; they are git-ignored.
The parser handles the item grammar linfa uses (attributes, generics, where clauses, named /
tuple / unit structs, enums with unit / tuple / struct variants).  Anything it cannot parse makes
it exit non-zero (reported by the check as a translator violation) - it never guesses.
"""
import os
import re
import sys

ROOT = os.path.dirname(os.path.dirname(os.path.abspath(__file__)))
REPO = os.path.normpath(os.path.join(ROOT, "..", "repo"))
GEN = os.path.join(ROOT, "lean", "LinfaSpec", "Gen")


class ParseError(Exception):
    pass


def strip_comments(src):
    """remove // and /* */ comments (nested), keep string / char literals; same length not needed"""
    out, i, n = [], 0, len(src)
    while i < n:
        c = src[i]
        if src.startswith("//", i):
            j = src.find("\n", i)
            i = n if j < 0 else j
        elif src.startswith("/*", i):
            depth, i = 1, i + 2
            while i < n and depth:
                if src.startswith("/*", i):
                    depth += 1
                    i += 2
                elif src.startswith("*/", i):
                    depth -= 1
                    i += 2
                else:
                    i += 1
        elif c == '"':
            j = i + 1
            while j < n and src[j] != '"':
                j += 2 if src[j] == "\\" else 1
            out.append(src[i:j + 1])
            i = j + 1
        elif c == "r" and re.match(r'r#*"', src[i:i + 8]) and (i == 0 or not (src[i - 1].isalnum() or src[i - 1] == "_")):
            m = re.match(r'r(#*)"', src[i:])
            close = '"' + m.group(1)
            j = src.find(close, i + len(m.group(0)))
            if j < 0:
                raise ParseError("unterminated raw string")
            out.append(src[i:j + len(close)])
            i = j + len(close)
        elif c == "'":
            # char literal or lifetime
            m = re.match(r"'(\\.[^']*|[^'\\])'", src[i:])
            if m:
                out.append(m.group(0))
                i += len(m.group(0))
            else:
                out.append(c)
                i += 1
        else:
            out.append(c)
            i += 1
    return "".join(out)


OPEN = {"(": ")", "[": "]", "{": "}"}


def skip_ws(s, i):
    while i < len(s) and s[i].isspace():
        i += 1
    return i


def match_close(s, i):
    """s[i] is an opening bracket; returns index just after its matching close (string aware)"""
    stack = [OPEN[s[i]]]
    j = i + 1
    while j < len(s) and stack:
        c = s[j]
        if c == '"':
            j += 1
            while j < len(s) and s[j] != '"':
                j += 2 if s[j] == "\\" else 1
        elif c in OPEN:
            stack.append(OPEN[c])
        elif c in ")]}":
            if c != stack[-1]:
                raise ParseError("unbalanced brackets near " + s[max(0, j - 40):j + 10])
            stack.pop()
        j += 1
    if stack:
        raise ParseError("unterminated bracket")
    return j


def match_angle(s, i):
    """s[i] == '<': index just after the matching '>' (ignores '->' and '=>')"""
    depth, j = 0, i
    while j < len(s):
        c = s[j]
        if c == "<":
            depth += 1
        elif c == ">" and s[j - 1] not in "-=":
            depth -= 1
            if depth == 0:
                return j + 1
        elif c in OPEN:
            j = match_close(s, j) - 1
        j += 1
    raise ParseError("unterminated generics")


def read_attrs(s, i):
    """reads consecutive #[..] attributes starting at i; returns (list of attribute texts, index)"""
    attrs = []
    while True:
        i = skip_ws(s, i)
        if s.startswith("#[", i) or s.startswith("#![", i):
            k = s.index("[", i)
            j = match_close(s, k)
            attrs.append(re.sub(r"\s+", " ", s[k + 1:j - 1]))
            i = j
        else:
            return attrs, i


def split_top(s):
    """split at top-level commas (brackets, generics and strings respected)"""
    parts, cur, i, depth_angle = [], [], 0, 0
    while i < len(s):
        c = s[i]
        if c in OPEN:
            j = match_close(s, i)
            cur.append(s[i:j])
            i = j
            continue
        if c == '"':
            j = i + 1
            while j < len(s) and s[j] != '"':
                j += 2 if s[j] == "\\" else 1
            cur.append(s[i:j + 1])
            i = j + 1
            continue
        if c == "<":
            depth_angle += 1
        elif c == ">" and i > 0 and s[i - 1] not in "-=":
            depth_angle = max(0, depth_angle - 1)
        if c == "," and depth_angle == 0:
            parts.append("".join(cur))
            cur = []
        else:
            cur.append(c)
        i += 1
    if "".join(cur).strip():
        parts.append("".join(cur))
    return [p for p in parts if p.strip()]


def serde_flags(attrs):
    """serde(...) options found in a list of attribute texts (cfg_attr(feature="serde", serde(..)) too)"""
    flags = set()
    for a in attrs:
        for m in re.finditer(r"\bserde\s*\(", a):
            j = match_close(a, m.end() - 1)
            inner = a[m.end():j - 1]
            for part in split_top(inner):
                key = re.match(r"\s*([A-Za-z_]+)", part)
                if key:
                    flags.add(key.group(1))
    return flags


def option_flag(ty):
    """pseudo-flag `option`: the field's type is `Option<..>` (serde reads an absent key of a self-describing
    format as `None`; the glue model's `deFieldsMap` follows that rule)"""
    return {"option"} if re.match(r"(?:(?:::)?(?:std|core)::option::)?Option\s*<", ty) else set()


def derives_serde(attrs):
    ser = de = False
    for a in attrs:
        for m in re.finditer(r"\bderive\s*\(", a):
            j = match_close(a, m.end() - 1)
            names = [x.strip().split("::")[-1] for x in a[m.end():j - 1].split(",")]
            ser |= "Serialize" in names
            de |= "Deserialize" in names
    return ser, de


def cfg_not_serde(attrs):
    return any(re.search(r'cfg\s*\(\s*not\s*\(\s*feature\s*=\s*"serde"', a) for a in attrs)


def parse_fields_named(body):
    fields = []
    for item in split_top(body):
        attrs, i = read_attrs(item, 0)
        rest = item[i:].strip()
        m = re.match(r"(?:pub(?:\s*\([^)]*\))?\s+)?(r#)?([A-Za-z_][A-Za-z0-9_]*)\s*:\s*(.*)$", rest, re.S)
        if not m:
            raise ParseError("field not understood: " + rest[:80])
        ty = re.sub(r"\s+", " ", m.group(3).strip())
        fields.append({"name": m.group(2), "ty": ty, "flags": serde_flags(attrs) | option_flag(ty)})
    return fields


def parse_fields_tuple(body):
    fields = []
    for k, item in enumerate(split_top(body)):
        attrs, i = read_attrs(item, 0)
        rest = re.sub(r"^pub(?:\s*\([^)]*\))?\s+", "", item[i:].strip())
        ty = re.sub(r"\s+", " ", rest)
        fields.append({"name": str(k), "ty": ty, "flags": serde_flags(attrs) | option_flag(ty)})
    return fields


def parse_variants(body):
    vs = []
    for item in split_top(body):
        attrs, i = read_attrs(item, 0)
        rest = item[i:].strip()
        m = re.match(r"([A-Za-z_][A-Za-z0-9_]*)\s*", rest)
        if not m:
            raise ParseError("variant not understood: " + rest[:80])
        name, tail = m.group(1), rest[m.end():]
        if tail.startswith("("):
            j = match_close(tail, 0)
            fs = parse_fields_tuple(tail[1:j - 1])
            kind = "newtype" if len(fs) == 1 else "tuple"
        elif tail.startswith("{"):
            j = match_close(tail, 0)
            fs = parse_fields_named(tail[1:j - 1])
            kind = "struct"
        else:
            fs, kind = [], "unit"
        vs.append({"name": name, "kind": kind, "fields": fs, "flags": serde_flags(attrs)})
    return vs


ITEM = re.compile(r"(?:pub(?:\s*\([^)]*\))?\s+)?(struct|enum)\s+([A-Za-z_][A-Za-z0-9_]*|\[<[^>]*>\])")


def parse_file(path, rel, crate):
    src = strip_comments(open(path, encoding="utf-8").read())
    types = []
    i = 0
    while True:
        k = src.find("#[", i)
        if k < 0:
            break
        # only attribute runs that start an item
        attrs, j = read_attrs(src, k)
        i = j
        m = ITEM.match(src, skip_ws(src, j))
        if not m:
            if any(derives_serde(attrs)) and not cfg_not_serde(attrs) and re.match(r"(?:pub(?:\s*\([^)]*\))?\s+)?(struct|enum|union)\b", src[skip_ws(src, j):]):
                raise ParseError("serde-deriving item whose name is not a plain identifier (macro metavariable?): " + src[skip_ws(src, j):skip_ws(src, j) + 60].replace("\n", " "))
            continue
        ser, de = derives_serde(attrs)
        if not (ser or de):
            continue
        if cfg_not_serde(attrs):
            continue
        kind, name = m.group(1), m.group(2)
        p = skip_ws(src, m.end())
        generics = ""
        if src[p] == "<":
            q = match_angle(src, p)
            generics = re.sub(r"\s+", " ", src[p + 1:q - 1])
            p = skip_ws(src, q)
        t = {"crate": crate, "name": name, "file": rel, "rust_kind": kind, "generics": generics,
             "ser": ser, "de": de, "flags": serde_flags(attrs), "fields": [], "variants": []}
        # tuple struct: `(…) [where …];`   named: `[where …] {…}`   unit: `;`
        if src[p] == "(":
            q = match_close(src, p)
            t["fields"] = parse_fields_tuple(src[p + 1:q - 1])
            t["kind"] = "newtype" if len(t["fields"]) == 1 else "tuple"
            i = q
        else:
            b = p
            while src[b] not in "{;":
                b = match_close(src, b) if src[b] in "([" else b + 1
            if src[b] == ";":
                t["kind"] = "unit"
                i = b + 1
            else:
                q = match_close(src, b)
                body = src[b + 1:q - 1]
                if kind == "struct":
                    t["fields"] = parse_fields_named(body)
                    t["kind"] = "struct"
                else:
                    t["variants"] = parse_variants(body)
                    t["kind"] = "enum"
                    for v in t["variants"]:
                        t["flags"] = t["flags"] | (v["flags"] - {"skip", "skip_serializing", "skip_deserializing"})
                i = q
        if name.startswith("[<"):
            # paste!-style name inside `macro_rules! m { ($x:ident) => …}`: one type per invocation `m!(X)`
            mm = [x for x in re.finditer(r"macro_rules!\s*([A-Za-z_][A-Za-z0-9_]*)\s*\{\s*\(\s*\$([a-z_]+)\s*:\s*ident\s*\)", src) if x.start() < k]
            if not mm:
                raise ParseError("pasted type name outside a one-identifier macro: " + name)
            mac, var = mm[-1].group(1), mm[-1].group(2)
            invs = re.findall(r"\b" + mac + r"!\s*[\(\{\[]\s*([A-Za-z_][A-Za-z0-9_]*)\s*[\)\}\]]", src)
            if not invs:
                raise ParseError("no invocation of macro " + mac)
            for x in invs:
                parts = name[2:-2].split()
                if any(":" in q for q in parts):
                    raise ParseError("paste modifier in type name " + name)
                t2 = dict(t)
                t2["name"] = "".join(x if q == "$" + var else q for q in parts)
                types.append(t2)
            continue
        types.append(t)
    return types


MANUAL = re.compile(r"\bimpl\b(?:\s*<[^{;]*?>)?\s*(?:[A-Za-z_][A-Za-z0-9_]*::)*(Serialize|Deserialize|DeserializeOwned|DeserializeSeed)\b(?:\s*<[^>{;]*>)?\s+for\s+(?:&\s*)?(?:[A-Za-z_][A-Za-z0-9_]*::)*([A-Za-z_][A-Za-z0-9_]*)")


def manual_impls(path, rel, crate):
    """hand-written `impl Serialize for X` / `impl<'de> Deserialize<'de> for X`: serde code the derive table does not
    describe (the harness reports every one that is not on its reviewed list)"""
    src = strip_comments(open(path, encoding="utf-8").read())
    return [(crate + "::" + m.group(2), m.group(1), rel) for m in MANUAL.finditer(src)]


NDARRAY_TYPES = {"Array", "Array1", "Array2", "Array3", "ArrayBase", "ArrayD", "Array0", "CowArray", "ArcArray", "ArcArray1", "ArcArray2"}
SPRS_TYPES = {"CsMat", "CsMatBase", "CsVec", "CsVecBase", "CsMatI", "CsVecI"}


def feature_table(types):
    """per crate with serde types: the items of its `serde` feature and the forwards its serde types need
    (a field of a serde type mentions a serde type of another linfa crate -> `<that crate>/serde`, an ndarray
    array -> `ndarray/serde`, a sprs matrix -> `sprs/serde`).  Feature unification in the harness build hides a
    missing forward; a user building the crate alone with `--features serde` gets a compile error."""
    by_name = {}
    for t in types:
        by_name.setdefault(t["name"], set()).add(t["crate"])
    rows = []
    for crate, srcdir in crates():
        mine = [t for t in types if t["crate"] == crate]
        if not mine:
            continue
        toml = os.path.join(os.path.dirname(srcdir), "Cargo.toml")
        text = open(toml, encoding="utf-8").read()
        m = re.search(r"^\[features\]\s*$(.*?)(?=^\[|\Z)", text, re.S | re.M)
        feats = m.group(1) if m else ""
        fm = re.search(r"^serde\s*=\s*\[(.*?)\]", feats, re.S | re.M)
        items = sorted(x.strip().strip('"') for x in fm.group(1).split(",") if x.strip()) if fm else []
        need = {}
        for t in mine:
            members = list(t["fields"]) + [f for v in t["variants"] for f in v["fields"]]
            for f in members:
                if is_skipped(f["flags"]):
                    continue
                for ident in set(re.findall(r"[A-Za-z_][A-Za-z0-9_]*", f["ty"])):
                    why = f"{t['name']}.{f['name']}"
                    if ident in NDARRAY_TYPES:
                        need.setdefault("ndarray/serde", why)
                    elif ident in SPRS_TYPES:
                        need.setdefault("sprs/serde", why)
                    elif ident in by_name and crate not in by_name[ident] and len(by_name[ident]) == 1:
                        dep = next(iter(by_name[ident]))
                        # only a crate this one really depends on (a same-named type of an unrelated crate is not meant)
                        if re.search(r"^\s*" + re.escape(dep) + r"\s*=", text, re.M) or re.search(r"^\[dependencies\." + re.escape(dep) + r"\]", text, re.M):
                            need.setdefault(dep + "/serde", why)
        rows.append((crate, items, sorted(need.items())))
    return rows


def crates():
    out = [("linfa", os.path.join(REPO, "src"))]
    adir = os.path.join(REPO, "algorithms")
    for d in sorted(os.listdir(adir)):
        s = os.path.join(adir, d, "src")
        if os.path.isdir(s):
            out.append((d, s))
    dd = os.path.join(REPO, "datasets", "src")
    if os.path.isdir(dd):
        out.append(("linfa-datasets", dd))
    return out


MOD = re.compile(r"((?:#\[[^\]]*\]\s*)*)(?:pub(?:\s*\([^)]*\))?\s+)?mod\s+([A-Za-z_][A-Za-z0-9_]*)\s*;")


def module_files(root_file):
    """files of the crate's module tree (`mod x;` followed from lib.rs; test-only modules skipped),
    so that source files no `mod` line reaches (dead code) are not listed"""
    seen, todo = [], [root_file]
    while todo:
        f = todo.pop()
        if f in seen:
            continue
        seen.append(f)
        src = strip_comments(open(f, encoding="utf-8").read())
        base = os.path.dirname(f)
        if os.path.basename(f) not in ("lib.rs", "mod.rs", "main.rs"):
            base = os.path.join(base, os.path.basename(f)[:-3])
        for m in MOD.finditer(src):
            attrs, name = m.group(1), m.group(2)
            if re.search(r"cfg\s*\(\s*(?:all\s*\(\s*)?linfa_verif", attrs):
                # verification hooks (cfg linfa_verif) are not part of linfa
                continue
            if re.search(r"cfg\s*\(\s*test\s*\)", attrs) or re.search(r'cfg\s*\(\s*not\s*\(\s*feature\s*=\s*"serde"', attrs):
                continue
            if "path" in attrs:
                raise ParseError(f"{f}: #[path] on mod {name} not supported")
            c1, c2 = os.path.join(base, name + ".rs"), os.path.join(base, name, "mod.rs")
            if os.path.exists(c1):
                todo.append(c1)
            elif os.path.exists(c2):
                todo.append(c2)
            else:
                raise ParseError(f"{f}: module {name} not found")
    return sorted(seen)


def collect_manual():
    out = []
    for crate, srcdir in crates():
        for path in module_files(os.path.join(srcdir, "lib.rs")):
            out += manual_impls(path, os.path.relpath(path, REPO), crate)
    return sorted(set(out))


def collect():
    types = []
    for crate, srcdir in crates():
        root = os.path.join(srcdir, "lib.rs")
        if not os.path.exists(root):
            raise ParseError(f"{srcdir}: no lib.rs")
        for path in module_files(root):
            rel = os.path.relpath(path, REPO)
            try:
                types += parse_file(path, rel, crate)
            except ParseError as e:
                raise ParseError(f"{rel}: {e}")
    types.sort(key=lambda t: (t["crate"], t["name"], t["file"]))
    return types


def lean_str(s):
    return '"' + s.replace("\\", "\\\\").replace('"', '\\"') + '"'


def is_skipped(flags):
    return bool(flags & {"skip", "skip_serializing", "skip_deserializing"})


def lean_field(f):
    fl = f["flags"]
    return f"⟨{lean_str(f['name'])}, {str(is_skipped(fl)).lower()}, {lean_str(' '.join(sorted(fl)))}⟩"


def lean_variant(v):
    fs = ", ".join(lean_field(f) for f in v["fields"])
    return f"⟨{lean_str(v['name'])}, {lean_str(v['kind'])}, {str(is_skipped(v['flags'])).lower()}, [{fs}]⟩"


def write_outputs(types):
    os.makedirs(GEN, exist_ok=True)
    lines = ["-- GENERATED by tools/serde2lean.py from ../repo sources; do not edit, not under version control",
             "import LinfaSpec.Model.Wire", "", "namespace LinfaSpec.Gen.C19Types", "open LinfaSpec.Wire", "",
             "def types : List TypeInfo := ["]
    rows = []
    for t in types:
        fs = ", ".join(lean_field(f) for f in t["fields"])
        vs = ", ".join(lean_variant(v) for v in t["variants"])
        rows.append(f"  ⟨{lean_str(t['crate'] + '::' + t['name'])}, {lean_str(t['kind'])}, {lean_str(' '.join(sorted(t['flags'])))}, [{fs}], [{vs}]⟩")
    lines.append(",\n".join(rows))
    lines += ["]", "", "end LinfaSpec.Gen.C19Types", ""]
    new = "\n".join(lines)
    path = os.path.join(GEN, "C19Types.lean")
    if not os.path.exists(path) or open(path, encoding="utf-8").read() != new:
        open(path, "w", encoding="utf-8").write(new)
    # tsv: id \t kind \t file \t ser/de \t container flags \t generics \t members
    # members: name:flags(+sep)|… for fields;  Variant/kind/skipflag(field;field) for enums
    tsv = []
    for t in types:
        if t["kind"] == "enum":
            mem = "|".join(f"{v['name']}/{v['kind']}/{'+'.join(sorted(v['flags'])) or '-'}/" + ";".join(f"{f['name']}:{'+'.join(sorted(f['flags'])) or '-'}" for f in v["fields"]) for v in t["variants"])
        else:
            mem = "|".join(f"{f['name']}:{'+'.join(sorted(f['flags'])) or '-'}" for f in t["fields"])
        tsv.append("\t".join([t["crate"] + "::" + t["name"], t["kind"], t["file"], ("S" if t["ser"] else "") + ("D" if t["de"] else ""),
                              "+".join(sorted(t["flags"])) or "-", t["generics"] or "-", mem or "-"]))
    new = "\n".join(tsv) + "\n"
    path = os.path.join(GEN, "C19Types.tsv")
    if not os.path.exists(path) or open(path, encoding="utf-8").read() != new:
        open(path, "w", encoding="utf-8").write(new)


def write_side_tables(types):
    man = "".join("\t".join(r) + "\n" for r in collect_manual())
    feat = "".join(f"{c}\t{','.join(items) or '-'}\t{','.join(k + ':' + w for k, w in need) or '-'}\n" for c, items, need in feature_table(types))
    for name, new in (("C19Manual.tsv", man), ("C19Features.tsv", feat)):
        path = os.path.join(GEN, name)
        if not os.path.exists(path) or open(path, encoding="utf-8").read() != new:
            open(path, "w", encoding="utf-8").write(new)


def main():
    try:
        types = collect()
        write_side_tables(types)
    except ParseError as e:
        print("serde2lean: cannot parse:", e)
        return 1
    ids = [t["crate"] + "::" + t["name"] for t in types]
    dup = {x for x in ids if ids.count(x) > 1}
    if dup:
        print("serde2lean: duplicate type ids", sorted(dup))
        return 1
    if not types:
        print("serde2lean: no serde types found under", REPO)
        return 1
    write_outputs(types)
    if "-v" in sys.argv:
        for t in types:
            print(t["crate"] + "::" + t["name"], t["kind"], [f["name"] + ("!" + ",".join(sorted(f["flags"])) if f["flags"] else "") for f in t["fields"]],
                  [v["name"] + "/" + v["kind"] + ("!" + ",".join(sorted(v["flags"])) if v["flags"] else "") for v in t["variants"]])
    print(f"serde2lean: {len(types)} types")
    return 0


if __name__ == "__main__":
    sys.exit(main())
