"""
Per-property configuration of the check front end: translators to run, comparison rules for
float tokens, wording for the evidence file.  Keys are optional.
"""
HOOK_COMMITS = []

CONF = {
    "C01": {
        "claimed": True,
        "level_text": "Lean theorems for every n, every 2<=k<=n, every feature/target width and every closure: fold pairs are (complement, i-th block) in order, rows stay paired, iter_fold restores the buffers, cross_validate returns the per-fold mean / the first error. The model is tied to the Rust code by an exhaustive (n,k) correspondence run plus scripted cross-validation runs on every check.",
        "level_note": "Trusted: Lean kernel; hand-written model of fold/iter_fold/cross_validate (ndarray chunking/concatenate/from_shape modelled by contract); harness, driver and comparison. A closure that panics mid-fold is outside the property.",
        "rule": "exhaustive over all (n,k) with n<=40 (quick) / n<=120 (thorough), k in 0..n+1 for fold/iter_fold; "
                "scripted cross-validation runs (errors in a third of them); random larger shapes; "
                "distinct = distinct request lines",
        "assumptions": [
            "ndarray's axis_chunks_iter/concatenate/from_shape are modelled by their contract (chunks = consecutive blocks), validated on every case by the correspondence",
            "behaviour when the user closure panics mid-fold is outside the property",
        ],
    },
}
