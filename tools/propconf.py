"""
Per-property configuration of the check front end, one JSON file per property in tools/conf/:
  claimed        true once the property has model + theorems + correspondence (goes into MANIFEST.json)
  level_text     MANIFEST level_claimed.text     level_note   MANIFEST level_note
  technique      (optional) MANIFEST technique
  translators    (optional) scripts in tools/ run before the Lean build (regenerate LinfaSpec/Gen/*)
  compare        (optional) {op name or "*": {"ulps": k} | {"rel": e, "abs": a} [, "min_margin": m]} for `~` float tokens
  rule           evidence coverage.rule wording   assumptions / trusted   lists copied into the evidence
  na_reason      (optional) reason shown under not_applicable while unclaimed
"""
import glob
import json
import os

_D = os.path.join(os.path.dirname(os.path.abspath(__file__)), "conf")
CONF = {}
for _f in sorted(glob.glob(os.path.join(_D, "C*.json"))):
    CONF[os.path.basename(_f)[:-5]] = json.load(open(_f))

# tools/conf/extra.json: per-property additions kept apart from the per-property files
#   translators          appended to the property's translator list
#   translator_sections  {translator: [sections]}: the sections of a shared translator whose failure concerns this property
#   extra_prop_modules   further modules LinfaSpec.Props.<name> whose theorems are obligations of the property
_x = os.path.join(_D, "extra.json")
if os.path.exists(_x):
    for _p, _e in json.load(open(_x)).items():
        _c = CONF.setdefault(_p, {})
        for _k, _v in _e.items():
            if isinstance(_v, dict):
                _c[_k] = dict(_c.get(_k, {}), **_v)
            else:
                _c[_k] = list(_c.get(_k, [])) + [x for x in _v if x not in _c.get(_k, [])]

_h = os.path.join(_D, "hooks.json")
HOOK_COMMITS = json.load(open(_h)) if os.path.exists(_h) else []
