#!/usr/bin/env python3
"""tools/mkfloors.py [Cxx ...] — records the baseline counts of the distribution keys named by conf "floors" for the
unchanged tree (seed 1, quick and thorough tiers) into tools/conf/floors.json.  Run on a clean /repo after a change
to a generator; `check` then requires count >= fraction * baseline for those keys (see check: coverage_floors)."""
import json
import os
import subprocess
import sys

ROOT = os.path.dirname(os.path.dirname(os.path.abspath(__file__)))
sys.path.insert(0, os.path.join(ROOT, "tools"))
import propconf  # noqa: E402

fp = os.path.join(ROOT, "tools", "conf", "floors.json")
floors = json.load(open(fp)) if os.path.exists(fp) else {}
props = sys.argv[1:] or sorted(p for p, c in propconf.CONF.items() if c.get("floors"))
for prop in props:
    pats = propconf.CONF[prop].get("floors", {})
    if not pats:
        print(prop, "has no floors in its conf")
        continue
    floors[prop] = {}
    for tier in ("quick", "thorough"):
        env = dict(os.environ, VERIF_SEED="1")
        r = subprocess.run([os.path.join(ROOT, "check"), prop, "--tier", tier], cwd=ROOT, env=env, stdout=subprocess.PIPE, stderr=subprocess.STDOUT, text=True)
        if r.returncode != 0:
            print(prop, tier, "check not green; floors not recorded:\n", r.stdout[-600:])
            sys.exit(1)
        dist = json.load(open(os.path.join(ROOT, ".cache", "run", prop, "dist.json"))).get("distribution", {})
        keep = {k: v for k, v in dist.items() if any(k == p or (p.endswith("*") and k.startswith(p[:-1])) for p in pats)}
        floors[prop][tier] = keep
        print(prop, tier, len(keep), "keys")
json.dump(floors, open(fp, "w"), indent=1, sort_keys=True)
