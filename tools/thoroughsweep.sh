#!/bin/sh
# run from a vp snapshot of /verif: thorough tier of every property (seed from VERIF_SEED, default 1) against a snapshot of /repo's HEAD
[ -n "$VP_RUN_REPO" ] && [ ! -e ../repo ] && ln -s "$VP_RUN_REPO" ../repo
./check --setup > setup.log 2>&1 || { tail -20 setup.log; exit 2; }
for p in C01 C02 C03 C04 C05 C06 C07 C08 C09 C10 C11 C12 C13 C14 C15 C16 C17 C18 C19 C20; do
  ./check $p --tier thorough > tout_$p.log 2>&1
  echo "thorough $p rc=$? $(tail -1 tout_$p.log | cut -c1-170)"
  grep "^VIOLATION" -A3 tout_$p.log | cut -c1-400
done
