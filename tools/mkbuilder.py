#!/usr/bin/env python3
"""tools/mkbuilder.py Cxx ["extra focus text"] — creates the private builder sandbox /tmp/b_Cxx (tools/mksandbox.sh)
and writes the builder brief /tmp/bprompts/bprompt_Cxx.txt for a sub-agent that extends property Cxx
(round 2: close the gaps of notes/audit/Cxx.md, more code inside the model, more theorems, tighter tie)."""
import json
import os
import subprocess
import sys

ROOT = os.path.dirname(os.path.dirname(os.path.abspath(__file__)))
TEMPLATE = r'''You are a builder on a verification project: machine-checked proof in Lean 4 of semantic properties of the Rust machine-learning toolkit rust-ml/linfa, with the Lean model tied to the Rust code by a differential correspondence harness. The framework exists and is green; your job is to EXTEND it for ONE property, __ID__ ("__TITLE__").

## Your sandbox (work ONLY here)
  __SB__/verif   clone of the framework, branch __ID__ (commit here, small commits, message prefix "__ID__: ")
  __SB__/repo    clone of linfa, branch __ID__ (hooks / fixes as separate small commits, see BUILDING.md)
Never read or write /verif or /repo themselves (they belong to the coordinator) and nothing outside __SB__ except scratch files under /tmp/__ID___scratch (remove them at the end). The machine is offline (cargo --offline, no lake update). Use at most 4 parallel jobs for cargo (`-j4`); other builders share the 16 cores.

## Read first (in this order)
  1. __SB__/verif/BUILDING.md                      conventions: model / theorems / driver / harness / conf / findings / notes
  2. __SB__/verif/DESIGN.md lines 1-350             architecture, verdict protocol, trusted base, hooks
  3. the line of property __ID__ in __SB__/verif/properties.jsonl   (FIXED: never edit that file)
  4. __SB__/verif/notes/__ID__.md                   what is built for __ID__ (model, theorems, tie, findings)
  5. __SB__/verif/notes/audit/__ID__.md             an independent gap audit of the __ID__ check: clause table, "realistic changes the quick check would MISS", "oracle weaker than the statement", "false-alarm risks"
  6. the files themselves: lean/LinfaSpec/Props/__ID__.lean, the Model/ and Proofs/ files it imports, lean/LinfaSpec/Drv/__ID__.lean, harness/src/__LID__*.rs, tools/conf/__ID__.json, and the linfa sources the property is anchored in (in __SB__/repo).
Then run `cd __SB__/verif && ./check --setup` (about 5 minutes, once) and `./check __ID__` (must end with exit 0 and no VIOLATION line) before changing anything.

## What to do (priority order; about 2 hours of work, commit after each item)
  A. Close the audit's "would MISS" items, most important first: extend generators / ops / oracle in harness/src/__LID__*.rs and the model + driver so that such a change WOULD be caught (new calling forms, layouts (F-order, strided views), f32 instantiations, accessor functions never called, parameter variants never fitted, larger sizes, exact ties, ...). For every item you close, PROVE it is closed: make the described faulty change in __SB__/repo (uncommitted), run `./check __ID__`, see the VIOLATION line, then `git -C __SB__/repo checkout -- .` and see the check green again. Items that cannot be closed: say why in the notes.
  B. Strengthen the oracle where the audit says it is weaker than the statement (skipped clauses, loose tolerances, "any panic accepted", silent loss of coverage -> add coverage floors: conf "floors" + `python3 tools/mkfloors.py __ID__`).
  C. More of the code inside the model and more theorems: turn `_partial` theorems into full ones, give oracle-only clauses a theorem about the model, model the glue around the core (option handling, conversions, calling forms), add refinement/invariant theorems for every statement clause that has none. Theorems are stated for ALL inputs (induction / invariants / refinement, no size bound), each with a neighbouring `example` showing the hypotheses are satisfiable; never `decide` over samples presented as the general claim; no `sorry`, `admit`, `axiom`, `native_decide`, `bv_decide`, `implemented_by`, `unsafe`, `maxHeartbeats 0`. Model files stay core-only (no Mathlib/Batteries import); proof files import single Mathlib modules only.
  D. Where the audit lists false-alarm risks because the model/comparison demands MORE than the property states (a specific tie-break, a specific row order the statement does not promise, panic-vs-panic outside the property's guard): relax the comparison only to what the statement permits (e.g. compare as multiset, mark out-of-guard requests as not compared). Never loosen a comparison the statement does demand.
  E. If a check of yours fails on the UNCHANGED code: decide whether linfa really breaks the property (show the failing input against the real code -> genuine defect: a minimal unguarded `fix:` commit in __SB__/repo if a maintainer would accept it and `cargo test -p <crate> --offline -j4` passes unedited, recorded in known_findings.json as status "fixed" with the commit; otherwise an "open" entry identified by a narrow (clause, class) so that a different violation is still reported) or your check is wrong (false alarm: correct the machinery; never list a false alarm as a finding).

## Rules
  * The check must stay green on the unchanged tree for VERIF_SEED=1, 2 and 3 (`VERIF_SEED=2 ./check __ID__`), quick tier under about 3 minutes warm, thorough (`--tier thorough`) under about 20 minutes; run the thorough tier once at the end.
  * Touch only the files of __ID__ (Props/__ID__.lean, its Model/Proofs files, Drv/__ID__.lean, harness/src/__LID__*.rs, tools/conf/__ID__.json, notes/__ID__.md, known_findings.json entries of __ID__, corpus/replay files of __ID__). Shared files (check, tools/*.py, harness/src/util.rs, harness/src/main.rs, harness/Cargo.toml, Model/Proto.lean, Model/Scalar.lean, Drv/All.lean, lakefile) only additively and only if unavoidable; list every such edit in your final report.
  * New hooks in __SB__/repo: add-only, inside `#[cfg(linfa_verif)]`, one small commit "verif hooks: ..." per crate; with the flag off the crate's tests must pass.
  * After changing conf or theorem lists run `python3 tools/mkmanifest.py`. Update notes/__ID__.md: add/extend a section "## Audit items (notes/audit/__ID__.md)" listing every audit item with closed (how, and which faulty change you tried) / left open (why), and keep the lists of theorems, tolerances and findings current. Do not edit DESIGN.md (its per-property part is generated from the notes).
  * Commit the evidence file of your final green quick run (evidence/__ID__.json).
__FOCUS__
## Final report (your last message, short)
  commits on branch __ID__ of __SB__/verif (git log --oneline main..__ID__), commits on branch __ID__ of __SB__/repo (hooks / fix:), audit items closed (with the faulty change tried and the VIOLATION line seen), items left open and why, new theorems (names, one line each), any shared file touched, timings of quick / thorough, anything the coordinator must do by hand.
'''

pid = sys.argv[1]
focus = sys.argv[2] if len(sys.argv) > 2 else ""
props = {json.loads(l)["id"]: json.loads(l) for l in open(os.path.join(ROOT, "properties.jsonl"))}
p = props[pid]
sb = subprocess.run(["sh", os.path.join(ROOT, "tools", "mksandbox.sh"), pid], stdout=subprocess.PIPE, text=True, check=True).stdout.strip().splitlines()[-1]
t = (TEMPLATE.replace("__SB__", sb).replace("__ID__", pid).replace("__LID__", pid.lower()).replace("__TITLE__", p["title"])
     .replace("__FOCUS__", ("\n## Additional focus from the coordinator\n" + focus + "\n") if focus else ""))
os.makedirs("/tmp/bprompts", exist_ok=True)
out = f"/tmp/bprompts/bprompt_{pid}.txt"
open(out, "w").write(t)
print(out)
