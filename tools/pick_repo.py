#!/usr/bin/env python3
"""tools/pick_repo.py Cxx [commit ...] — cherry-pick the sandbox repo commits of builder Cxx (all not yet in /repo when
none given) into /repo, then rewrite the old short hashes to the new ones in known_findings.json, notes/Cxx.md and
tools/conf/*.json; hook commits ("verif hooks") are appended to tools/conf/hooks.json."""
import json
import os
import re
import subprocess
import sys

ROOT = os.path.dirname(os.path.dirname(os.path.abspath(__file__)))


def sh(cmd, cwd="/repo"):
    p = subprocess.run(cmd, cwd=cwd, stdout=subprocess.PIPE, stderr=subprocess.STDOUT, text=True)
    return p.returncode, p.stdout.strip()


pid = sys.argv[1]
sh(["git", "fetch", "-q", f"/tmp/b_{pid}/repo", pid])
commits = sys.argv[2:]
if not commits:
    # only commits whose patch is not in /repo yet (`git cherry` compares patch ids: "+" = not applied)
    rc, out = sh(["git", "cherry", "HEAD", "FETCH_HEAD"])
    commits = [l.split()[1][:7] for l in out.splitlines() if l.startswith("+")]
mapping, hooks = {}, json.load(open(os.path.join(ROOT, "tools", "conf", "hooks.json")))
for c in commits:
    rc, subj = sh(["git", "log", "-1", "--format=%s", c])
    rc, out = sh(["git", "cherry-pick", c])
    if rc != 0:
        print(f"cherry-pick {c} FAILED:\n{out}\nresolve by hand, then re-run for the remaining commits")
        sys.exit(1)
    rc, new = sh(["git", "log", "-1", "--format=%h"])
    rc, old = sh(["git", "rev-parse", "--short", c])
    mapping[old] = new
    print(f"{old} -> {new}  {subj}")
    if subj.lower().startswith("verif hooks") or "hook" in subj.lower() and not subj.startswith("fix:"):
        hooks.append(new)
json.dump(hooks, open(os.path.join(ROOT, "tools", "conf", "hooks.json"), "w"))
files = [os.path.join(ROOT, "known_findings.json"), os.path.join(ROOT, "notes", pid + ".md"), os.path.join(ROOT, "tools", "conf", pid + ".json")]
for f in files:
    if os.path.exists(f):
        s = open(f).read()
        for o, n in mapping.items():
            s = re.sub(r"\b" + o + r"[0-9a-f]*\b", n, s)
        open(f, "w").write(s)
