#!/bin/sh
# like seedsweep.sh for the properties in SWEEP_PROPS
[ -n "$VP_RUN_REPO" ] && [ ! -e ../repo ] && ln -s "$VP_RUN_REPO" ../repo
./check --setup > setup.log 2>&1 || { tail -20 setup.log; exit 2; }
for s in ${SWEEP_SEEDS:-51 52 53}; do
  for p in ${SWEEP_PROPS:-C03 C04 C20}; do
    VERIF_SEED=$s ./check $p --tier quick > out_${p}_$s.log 2>&1
    echo "seed=$s $p rc=$? $(tail -1 out_${p}_$s.log | cut -c1-160)"
    grep "^VIOLATION" -A3 out_${p}_$s.log | cut -c1-400
  done
done
