"""
Canonical comparison of one implementation response with one model response.

Default rule: the two lines must be identical strings.
Float tokens that went through a differently ordered reduction or libm are written with a
leading `~` (`~3fc0000000000000`, 16 hex digits = f64 bits, or `~nan`); they are compared by the
rule configured for the op in propconf.CONF[prop]["compare"][op]:
    {"ulps": k}       |bits distance| <= k (same sign), or both NaN
    {"rel": e, "abs": a}   |x-y| <= a + e*max(|x|,|y|)
Everything else in the line must match exactly.  If the model's line carries `margin=~<hex>`
and the rule has "min_margin": m, a case whose margin is below m is *skipped* (a discrete outcome
that depends on a float comparison too close to call) — counted as tie_skipped, never alarmed on.
"""
import math
import re
import struct

import propconf

SPLIT = re.compile(r"([ ,;|/=])")


def f64(tok):
    if tok == "nan":
        return float("nan")
    return struct.unpack(">d", bytes.fromhex(tok))[0]


def ordered(bits):
    # map sign-magnitude to a monotone integer line
    return bits if bits < (1 << 63) else (1 << 63) - bits


def close(a, b, rule):
    if a == b:
        return True
    try:
        x, y = f64(a), f64(b)
    except Exception:
        return False
    if math.isnan(x) or math.isnan(y):
        return math.isnan(x) and math.isnan(y)
    if math.isinf(x) or math.isinf(y):
        return x == y
    if x == y:
        return True
    if "ulps" in rule:
        ia, ib = ordered(int(a, 16)), ordered(int(b, 16))
        if abs(ia - ib) <= rule["ulps"]:
            return True
    if "rel" in rule or "abs" in rule:
        if abs(x - y) <= rule.get("abs", 0.0) + rule.get("rel", 0.0) * max(abs(x), abs(y)):
            return True
    return False


def rule_for(prop, op):
    conf = propconf.CONF.get(prop, {}).get("compare", {})
    parts = op.split(" ")
    name = parts[1] if len(parts) > 1 else ""
    return conf.get(name, conf.get("*", None))


def same(prop, op, impl, model):
    if impl == model:
        return True
    rule = rule_for(prop, op)
    if not rule:
        return False
    if "min_margin" in rule:
        m = re.search(r"margin=~([0-9a-f]{16}|nan)", model)
        if m:
            v = f64(m.group(1))
            if not (v >= rule["min_margin"]):
                return "skip"
    ta, tb = SPLIT.split(impl), SPLIT.split(model)
    if len(ta) != len(tb):
        return False
    for a, b in zip(ta, tb):
        if a == b:
            continue
        if a.startswith("~") and b.startswith("~"):
            if not close(a[1:], b[1:], rule):
                return False
        else:
            return False
    return True
