#!/bin/bash
# tools/accept_mutant.sh Cxx tag <crate> <seeded-name>
# Confirms a seeded change in its scratch worktree (/tmp/m_Cxx_tag, outputs /tmp/mo_Cxx_tag): the demonstration
# (tests/seeded_demo.rs of <crate>) fails with the change and passes without it, and the crate's own tests pass with
# it; then stores it as /verif/seeded/<seeded-name>/, runs the check against it and removes the worktree.
set -u
id=$1; tag=$2; crate=$3; name=$4
wt=/tmp/m_${id}_${tag}; out=/tmp/mo_${id}_${tag}
export CARGO_TARGET_DIR=$wt/target CARGO_NET_OFFLINE=true
cd $wt || exit 2
git diff --quiet && { echo "worktree has no change applied"; git apply $out/patch.diff || exit 2; }
demo=$(git status --porcelain | grep '^??' | grep -v target | awk '{print $2}' | head -5 | tr '\n' ' ')
echo "untracked: $demo"
with=$(cargo test -p $crate --offline -j8 --test seeded_demo 2>&1 | grep -E "^test result|error(\[|:)" | head -3)
echo "WITH change   : $with"
git diff > /tmp/_m.patch; git apply -R /tmp/_m.patch
without=$(cargo test -p $crate --offline -j8 --test seeded_demo 2>&1 | grep -E "^test result|error(\[|:)" | head -3)
echo "WITHOUT change: $without"
git apply /tmp/_m.patch
# the crate's own tests with the change (demo moved aside)
demofile=$(find . -name seeded_demo.rs -not -path "./target/*" | head -1)
mv $demofile /tmp/_seeded_demo.rs
suite=$(cargo test -p $crate --offline -j8 2>&1 | grep -E "^test result" | tr '\n' ' ')
mv /tmp/_seeded_demo.rs $demofile
echo "crate tests with change: $suite"
case "$with" in *FAILED*|*failed*) ;; *) echo "NOT CONFIRMED: demo does not fail with the change"; exit 1;; esac
case "$without" in *"ok."*) ;; *) echo "NOT CONFIRMED: demo does not pass without the change"; exit 1;; esac
case "$suite" in *FAILED*) echo "NOT CONFIRMED: crate tests fail with the change"; exit 1;; esac
d=/verif/seeded/$name; mkdir -p $d
cp $out/patch.diff $d/patch.diff; cp $demofile $d/seeded_demo.rs
python3 - "$out/meta.json" "$d/meta.json" "$demofile" "$crate" "$with" "$without" "$suite" <<'PY'
import json,sys
m=json.load(open(sys.argv[1]))
m["demo_path"]=sys.argv[3].lstrip("./")
m["demo_cmd"]=f"cargo test -p {sys.argv[4]} --offline --test seeded_demo"
m["confirmed_by_coordinator"]={"with_change":sys.argv[5],"without_change":sys.argv[6],"crate_tests_with_change":sys.argv[7]}
json.dump(m,open(sys.argv[2],"w"),indent=1)
PY
cd /verif && python3 tools/run_seeded.py seeded/$name
git -C /repo worktree remove --force $wt; rm -rf $out
