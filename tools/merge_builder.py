#!/usr/bin/env python3
"""tools/merge_builder.py Cxx — merge branch Cxx of the builder sandbox /tmp/b_Cxx/verif into /verif.
known_findings.json is merged as a union by finding id; MANIFEST.json and Props/All.lean are regenerated.
Repo commits of the sandbox are only listed (cherry-pick them by hand into /repo)."""
import json
import os
import subprocess
import sys

ROOT = os.path.dirname(os.path.dirname(os.path.abspath(__file__)))


def sh(cmd, cwd=ROOT, check=False):
    p = subprocess.run(cmd, cwd=cwd, stdout=subprocess.PIPE, stderr=subprocess.STDOUT, text=True)
    if check and p.returncode:
        print(p.stdout)
        sys.exit(1)
    return p.returncode, p.stdout


pid = sys.argv[1]
sb = f"/tmp/b_{pid}"
rc, dirty = sh(["git", "status", "--porcelain", "--untracked-files=no"])
if dirty.strip():
    print("working tree not clean; commit first:\n" + dirty)
    sys.exit(1)
sh(["git", "fetch", "-q", f"{sb}/verif", pid], check=True)
ours_kf = json.load(open(os.path.join(ROOT, "known_findings.json")))
HK = os.path.join(ROOT, "tools", "conf", "hooks.json")
ours_hk = json.load(open(HK)) if os.path.exists(HK) else []
FL = os.path.join(ROOT, "tools", "conf", "floors.json")
ours_fl = json.load(open(FL)) if os.path.exists(FL) else {}
rc, theirs_fl_txt = sh(["git", "show", "FETCH_HEAD:tools/conf/floors.json"])
theirs_fl = json.loads(theirs_fl_txt) if rc == 0 else {}
rc, theirs_txt = sh(["git", "show", "FETCH_HEAD:known_findings.json"])
theirs_kf = json.loads(theirs_txt) if rc == 0 else {"findings": []}
rc, out = sh(["git", "merge", "--no-commit", "--no-ff", "FETCH_HEAD"])
print(out)
if rc != 0 and "CONFLICT" not in out:
    print("merge did not start")
    sys.exit(1)
rc, st = sh(["git", "diff", "--name-only", "--diff-filter=U"])
conflicts = [l for l in st.splitlines() if l.strip()]
auto = {"tools/conf/hooks.json", "known_findings.json", "MANIFEST.json", "lean/LinfaSpec/Props/All.lean", "tools/conf/floors.json", "seeded/results.json"}
hard = [c for c in conflicts if c not in auto and not c.startswith("evidence/")]
if hard:
    print("UNRESOLVED conflicts:", hard)
    sys.exit(1)
for c in conflicts:
    if c.startswith("evidence/"):
        sh(["git", "checkout", "--theirs", c])
# union by id; for the builder's own property the builder's version of an entry replaces ours
ours_by_id = {f["id"]: i for i, f in enumerate(ours_kf["findings"])}
for f in theirs_kf["findings"]:
    if f["id"] not in ours_by_id:
        ours_kf["findings"].append(f)
    elif f.get("property") == pid[:3]:
        ours_kf["findings"][ours_by_id[f["id"]]] = f
json.dump(ours_kf, open(os.path.join(ROOT, "known_findings.json"), "w"), indent=1)
# coverage-floor baselines: key-wise union, the builder's own property from the builder
for k, v in theirs_fl.items():
    if k == pid[:3] or k not in ours_fl:
        ours_fl[k] = v
# hook commit list: ours (the builder's new hooks are appended by tools/pick_repo.py with their /repo hashes)
json.dump(ours_hk, open(HK, "w"))
if ours_fl:
    json.dump(ours_fl, open(FL, "w"), indent=1, sort_keys=True)
if "seeded/results.json" in conflicts:
    sh(["git", "checkout", "--ours", "seeded/results.json"])
sh([sys.executable, os.path.join(ROOT, "tools", "mkmanifest.py")], check=True)
sh(["git", "add", "-A"])
rc, out = sh(["git", "commit", "-q", "-m", f"Merge builder branch {pid}"])
print(out)
sh(["git", "fetch", "-q", f"{sb}/repo", pid], cwd="/repo")
rc, out = sh(["git", "log", "--oneline", "--reverse", "HEAD..FETCH_HEAD"], cwd="/repo")
print("repo commits in sandbox not in /repo:\n" + out)
