#!/usr/bin/env python3
"""tools/mkdesign.py — regenerates the generated tail of DESIGN.md (between the markers
<!-- BEGIN GENERATED --> and <!-- END GENERATED -->): findings table from known_findings.json,
seeded-change table from seeded/*/meta.json + seeded/results.json, and the per-property As-built
notes from notes/Cxx.md."""
import json
import os
import re

ROOT = os.path.dirname(os.path.dirname(os.path.abspath(__file__)))
B, E = "<!-- BEGIN GENERATED -->", "<!-- END GENERATED -->"

out = [B, "", "## 11. Findings established by the machinery (generated from known_findings.json)", "",
       "Each entry was first reported by a check as a VIOLATION with a concrete input against the real code.",
       "`fixed` entries were repaired by a `fix:` commit in /repo (the model then follows the fixed code and the full",
       "theorem is proved); `open` entries print `KNOWN-FINDING` and are matched by (clause, class) only, so any other",
       "violation of the same property is still reported.", "",
       "| id | property | status | what | witness |", "|---|---|---|---|---|"]
kf = json.load(open(os.path.join(ROOT, "known_findings.json")))["findings"]
for f in sorted(kf, key=lambda f: (f["property"], f["id"])):
    what = f["what"].replace("|", "\\|").replace("\n", " ")
    wit = str(f.get("witness", "")).replace("|", "\\|").replace("\n", " ")
    if len(wit) > 160:
        wit = wit[:160] + "…"
    out.append(f"| {f['id']} | {f['property']} | {f.get('status', 'open')} | {what} | `{wit}` |")

out += ["", "## 12. Seeded changes and which check catches them (generated)", "",
        "Every change below was written by an independent sub-agent that saw only the property text and a scratch",
        "worktree, was confirmed (demonstration fails with the change, passes without; the crate's tests still pass),",
        "and is kept under `seeded/<id>/`. `tools/run_seeded.py` applies each to /repo, runs the property's quick check,",
        "and undoes it.", "",
        "| seeded change | property | needs | caught | how |", "|---|---|---|---|---|"]
sd = os.path.join(ROOT, "seeded")
res = {}
if os.path.exists(os.path.join(sd, "results.json")):
    res = json.load(open(os.path.join(sd, "results.json")))
for d in sorted(os.listdir(sd)) if os.path.isdir(sd) else []:
    mp = os.path.join(sd, d, "meta.json")
    if not os.path.exists(mp):
        continue
    m = json.load(open(mp))
    r = res.get(d, {})
    needs = m.get("needs", "").replace("|", "\\|").replace("\n", " ")
    if len(needs) > 220:
        needs = needs[:220] + "…"
    out.append(f"| {d} | {m['property']} | {needs} | {r.get('caught', '?')} | {r.get('how', '')} |")

out += ["", "## 13. As built — per property (generated from notes/Cxx.md)", ""]
nd = os.path.join(ROOT, "notes")
for f in sorted(os.listdir(nd)):
    if not re.fullmatch(r"C\d+\.md", f):
        continue
    txt = open(os.path.join(nd, f)).read().strip()
    # demote headings by two levels so they nest under this section
    txt = re.sub(r"(?m)^(#+) ", lambda m: "#" * min(6, len(m.group(1)) + 2) + " ", txt)
    out += [f"### {f[:-3]} — as built", "", txt, ""]
out.append(E)

p = os.path.join(ROOT, "DESIGN.md")
s = open(p).read()
gen = "\n".join(out)
if B in s:
    s = s[:s.index(B)] + gen + s[s.index(E) + len(E):]
else:
    s = s.rstrip("\n") + "\n\n" + gen + "\n"
open(p, "w").write(s)
print("DESIGN.md regenerated:", len(kf), "findings")
