#!/usr/bin/env python3
"""Regenerates /verif/MANIFEST.json from tools/propconf.py (run after claiming a property)."""
import json
import os
import sys

ROOT = os.path.dirname(os.path.dirname(os.path.abspath(__file__)))
sys.path.insert(0, os.path.join(ROOT, "tools"))
import propconf  # noqa: E402

props = [json.loads(l) for l in open(os.path.join(ROOT, "properties.jsonl"))]
checks, na = [], []
for p in props:
    pid = p["id"]
    c = propconf.CONF.get(pid, {})
    if c.get("claimed"):
        checks.append({
            "property_id": pid,
            "quick_cmd": f"./check {pid} --tier quick",
            "thorough_cmd": f"./check {pid} --tier thorough",
            "evidence_file": f"/verif/evidence/{pid}.json",
            "replay_cmd_template": f"./check {pid} --replay {{path}}",
            "engine": "lean-proof+correspondence",
            "level_claimed": {"category": "proof", "text": c["level_text"], "design_ref": c.get("design_ref", f"DESIGN.md section 7, {pid}")},
            "level_note": c["level_note"],
            "technique": c.get("technique", "Lean 4 theorems about a hand-written executable model; model tied to the Rust code by a differential correspondence run on every check"),
        })
    else:
        na.append({"property_id": pid, "reason": c.get("na_reason", "check not built yet in this round; see DESIGN.md section 7 for the planned model, theorems and tie")})

m = {
    "version": 1,
    "setup_cmd": "./check --setup",
    "hooks": {
        "guard": "linfa_verif",
        "enable": "RUSTFLAGS=\"--cfg linfa_verif\" (set by ./check when it builds /verif/harness against /repo's working tree); hook code sits in #[cfg(linfa_verif)] modules",
        "baseline_off_cmd": "cd /repo && (cargo nextest run --workspace --no-fail-fast --offline || cargo test --workspace --no-fail-fast --offline)",
        "source_commits": propconf.HOOK_COMMITS,
        "add_only": True,
    },
    "engines": [{
        "name": "lean-proof+correspondence",
        "path": "/verif/check",
        "serves_properties": [c["property_id"] for c in checks],
        "kind_free_text": "Lean 4 project /verif/lean (models, theorems, native driver `drv`), Rust harness /verif/harness (`hx`, runs the real linfa code in-process and the property's oracle), python front end /verif/check (proof build + axiom audit, correspondence diff, verdicts, evidence)",
    }],
    "checks": checks,
    "notes": "All claimed checks are level `proof`: theorems in /verif/lean/LinfaSpec/Props/<id>.lean about the model, the model tied to /repo by the correspondence run (and by translators where DESIGN.md says so). See DESIGN.md for what is modelled rather than verified.",
    "not_applicable": na,
}
json.dump(m, open(os.path.join(ROOT, "MANIFEST.json"), "w"), indent=1)
# Props/All.lean imports every property file that exists (setup builds it)
pd = os.path.join(ROOT, "lean", "LinfaSpec", "Props")
mods = sorted(f[:-5] for f in os.listdir(pd) if f.endswith(".lean") and f != "All.lean")
open(os.path.join(pd, "All.lean"), "w").write("".join(f"import LinfaSpec.Props.{m}\n" for m in mods))
print(f"claimed {len(checks)}, not claimed {len(na)}")
