#!/usr/bin/env python3
"""
Translator for property C04: every `impl ParamGuard for X` in the repository under verification
is parsed and turned into Lean (lean/LinfaSpec/Gen/C04Params.lean, git-ignored, regenerated on
every check).  Per builder it emits

    structure Params            the fields the guard reads (Nat / XF / Option pair / list / enum)
    def guards : Params -> List (Option String)     the decision list, in source order
    def check  : Params -> Except String Unit := firstErr (guards p)
    def parse  : List String -> Option Params       request decoder used by the driver

The accepted Rust subset is exactly what the check_ref bodies use today:
  * `if c {Err(E)} else if c {Err(E)} ... else {[ext-call?;] Ok(&self.0)}`
  * statement sequences of `if c { return Err(E); }`, `if let Some(pat) = e { if c { return Err(E); } }`,
    `match e { Pat => { if c { return Err(E); } } ... };`, `let (a, b) = self.0.f;`,
    `self.0.platt_params().check_ref()?;`, closed by `Ok(&self.0)`
  * a tail `match e { Pat [if g] => Err(E), ..., _ => Ok(&self.0) }`
  * conditions from `== != < <= > >= ! && ||`, `F::zero() F::one() F::epsilon()`, number literals,
    `.is_negative() .is_sign_negative() .is_nan() .is_infinite() .is_finite()`,
    `(a..=b).contains(&x)`, `xs.iter().any(|p| c)`
  * `fn check(self)` must be literally `self.check_ref()?; Ok(self.0)`
Anything else raises (exit code 1): a new construct is a broken tie and is reported as such.
On failure the file is still written with the offending builder's `check` replaced by a stub that
always returns `.error "UNTRANSLATED"` so that the driver keeps building for the other properties
while the builder's `check_ok_iff` obligation breaks.
"""
import os
import re
import sys

ROOT = os.path.dirname(os.path.dirname(os.path.abspath(__file__)))
REPO = os.path.normpath(os.path.join(ROOT, "..", "repo"))
OUT = os.path.join(ROOT, "lean", "LinfaSpec", "Gen", "C04Params.lean")

# file -> list of (Rust type-name regex, Lean namespace).  Every `impl ParamGuard for` found in the
# repository must be listed here (an unknown one is a loud failure: a new builder is not covered).
FILES = [
    ("src/composing/platt_scaling.rs", {"PlattParams": "Platt"}),
    ("algorithms/linfa-clustering/src/k_means/hyperparams.rs", {"KMeansParams": "KMeans"}),
    ("algorithms/linfa-clustering/src/dbscan/hyperparams.rs", {"DbscanParams": "Dbscan"}),
    ("algorithms/linfa-clustering/src/appx_dbscan/hyperparams.rs", {"AppxDbscanParams": "AppxDbscan"}),
    ("algorithms/linfa-clustering/src/optics/hyperparams.rs", {"OpticsParams": "Optics"}),
    ("algorithms/linfa-clustering/src/gaussian_mixture/hyperparams.rs", {"GmmParams": "Gmm"}),
    ("algorithms/linfa-elasticnet/src/hyperparams.rs", {"ElasticNetParamsBase": "ElasticNet"}),
    ("algorithms/linfa-logistic/src/hyperparams.rs", {"LogisticRegressionParams": "Logistic"}),
    ("algorithms/linfa-linear/src/glm/hyperparams.rs", {"TweedieRegressorParams": "Tweedie"}),
    ("algorithms/linfa-svm/src/hyperparams.rs", {"SvmParams": "Svm"}),
    ("algorithms/linfa-trees/src/decision_trees/hyperparams.rs", {"DecisionTreeParams": "DecisionTree"}),
    ("algorithms/linfa-bayes/src/hyperparams.rs", {"GaussianNbParams": "GaussianNb", "MultinomialNbParams": "MultinomialNb"}),
    ("algorithms/linfa-ftrl/src/hyperparams.rs", {"FtrlParams": "Ftrl"}),
    ("algorithms/linfa-pls/src/hyperparams.rs", {"PlsParams": "Pls", "[<Pls $name Params>]": "PlsMacro"}),
    ("algorithms/linfa-tsne/src/hyperparams.rs", {"TSneParams": "TSne"}),
    ("algorithms/linfa-ica/src/hyperparams.rs", {"FastIcaParams": "FastIca"}),
    ("algorithms/linfa-reduction/src/diffusion_map/hyperparams.rs", {"DiffusionMapParams": "DiffusionMap"}),
    ("algorithms/linfa-reduction/src/random_projection/hyperparams.rs", {"RandomProjectionParams": "RandomProjection"}),
    ("algorithms/linfa-hierarchical/src/lib.rs", {"HierarchicalCluster": "Hierarchical"}),
    ("algorithms/linfa-preprocessing/src/countgrams/hyperparams.rs", {"CountVectorizerParams": "CountVectorizer"}),
]
# nested guards reached through a method of the inner struct: method -> (field name, Lean namespace, tag prefix)
NESTED = {"platt_params": ("platt", "Platt", "Platt.")}
# fallible external calls in the accepting branch: callee -> (Bool field, error tag)
EXTERNAL = {"SerdeRegex::new": ("split_regex_ok", "RegexError")}


class Untranslatable(Exception):
    pass


# ------------------------------------------------------------------------------------------ lexer

TOK = re.compile(r"""
    (?P<ws>\s+|//[^\n]*)
  | (?P<str>"(?:[^"\\]|\\.)*")
  | (?P<num>\d+\.\d*(?:e-?\d+)?|\d+)
  | (?P<id>[A-Za-z_$][A-Za-z0-9_]*)
  | (?P<op>\.\.=|::|=>|==|!=|<=|>=|&&|\|\||[-+*/!<>=&|.,;:(){}\[\]?])
""", re.X)


def lex(src):
    out, i = [], 0
    while i < len(src):
        m = TOK.match(src, i)
        if not m:
            raise Untranslatable(f"cannot tokenise at: {src[i:i+40]!r}")
        k = m.lastgroup
        text = m.group(k)
        if k == "num" and out and out[-1][1] == ".":
            text = re.match(r"\d+", text).group(0)  # tuple index: `self.0.0.tolerance`
            i += len(text)
        elif k == "num" and text.endswith(".") and re.match(r"[A-Za-z_]", src[m.end():m.end() + 1] or " "):
            text = text[:-1]  # `0.min(..)`-like: never a float literal
            i += len(text)
        else:
            i = m.end()
        if k != "ws":
            out.append((k, text))
    return out


def matching_brace(src, i):
    """src[i] == '{' -> index just past the matching '}'"""
    d = 0
    while True:
        c = src[i]
        if c == "{":
            d += 1
        elif c == "}":
            d -= 1
            if d == 0:
                return i + 1
        i += 1


# ----------------------------------------------------------------------------------------- parser
# AST of conditions:
#   ("field", name) ("var", name) ("lit", "nat"|"xf", text) ("const", "zero"|"one"|"eps")
#   ("cmp", op, a, b) ("not", a) ("and", a, b) ("or", a, b) ("pred", name, a)
#   ("contains", lo, hi, x) ("any", xs, var, body)

class P:
    def __init__(self, toks):
        self.t, self.i = toks, 0

    def peek(self, k=0):
        return self.t[self.i + k][1] if self.i + k < len(self.t) else None

    def kind(self, k=0):
        return self.t[self.i + k][0] if self.i + k < len(self.t) else None

    def eat(self, s=None):
        tok = self.peek()
        if tok is None or (s is not None and tok != s):
            raise Untranslatable(f"expected {s!r}, found {tok!r} (near {' '.join(x[1] for x in self.t[max(0,self.i-6):self.i+6])})")
        self.i += 1
        return tok

    def at(self, *ss):
        return all(self.peek(k) == s for k, s in enumerate(ss))

    # ---- expressions
    def expr(self):
        a = self.and_()
        while self.at("||"):
            self.eat()
            a = ("or", a, self.and_())
        return a

    def and_(self):
        a = self.cmp()
        while self.at("&&"):
            self.eat()
            a = ("and", a, self.cmp())
        return a

    def cmp(self):
        a = self.unary()
        if self.peek() in ("==", "!=", "<", "<=", ">", ">="):
            op = self.eat()
            b = self.unary()
            return ("cmp", op, a, b)
        return a

    def unary(self):
        if self.at("!"):
            self.eat()
            return ("not", self.unary())
        if self.at("&") or self.at("*"):
            self.eat()
            return self.unary()
        return self.postfix()

    def primary(self):
        k, tok = self.kind(), self.peek()
        if tok == "(":
            self.eat()
            a = self.expr()
            if self.at("..="):
                self.eat()
                b = self.expr()
                self.eat(")")
                return ("range", a, b)
            self.eat(")")
            return a
        if k == "num":
            self.eat()
            return ("lit", "xf" if "." in tok else "nat", tok)
        if k == "id":
            self.eat()
            if tok == "self":
                return ("self",)
            if self.at("::"):
                self.eat()
                name = self.eat()
                if tok == "F" and name in ("zero", "one", "epsilon") and self.at("(", ")"):
                    self.eat(); self.eat()
                    return ("const", {"zero": "zero", "one": "one", "epsilon": "eps"}[name])
                raise Untranslatable(f"unknown path {tok}::{name}")
            return ("var", tok)
        raise Untranslatable(f"unexpected token {tok!r} in expression")

    def postfix(self):
        a = self.primary()
        while self.at("."):
            self.eat()
            k, name = self.kind(), self.eat()
            if k == "num":  # tuple projection self.0 / self.0.0
                if a[0] in ("self", "inner"):
                    a = ("inner",)
                    continue
                raise Untranslatable("tuple projection on a non-self value")
            if self.at("("):
                self.eat()
                if name in ("is_negative", "is_sign_negative", "is_nan", "is_infinite", "is_finite"):
                    self.eat(")")
                    a = ("pred", name, a)
                elif name in ("as_ref", "clone", "iter"):
                    self.eat(")")
                elif name == "contains":
                    x = self.unary()
                    self.eat(")")
                    if a[0] != "range":
                        raise Untranslatable("contains on a non-range")
                    a = ("contains", a[1], a[2], x)
                elif name == "any":
                    self.eat("|")
                    v = self.eat()
                    self.eat("|")
                    body = self.expr()
                    self.eat(")")
                    a = ("any", a, v, body)
                elif name in NESTED and a[0] == "inner":
                    self.eat(")")
                    return ("nested", name)
                else:
                    raise Untranslatable(f"unknown method .{name}()")
            else:
                if a[0] == "inner":
                    a = ("field", name)
                elif a[0] == "field":
                    a = ("field", a[1] + "_" + name)
                else:
                    raise Untranslatable(f"field access .{name} on {a}")
        return a

    # ---- error values
    def err_value(self):
        """after `Err(`: Path::Variant[(payload)] -> tag; consumes through the closing `)` of Err"""
        self.eat("Err")
        self.eat("(")
        depth, toks = 1, []
        while True:
            tok = self.eat()
            if tok == "(":
                depth += 1
            elif tok == ")":
                depth -= 1
                if depth == 0:
                    break
            toks.append(tok)
        # toks: Path :: Variant ( payload... )
        j = 0
        while j + 1 < len(toks) and toks[j + 1] == "::":
            j += 2
        variant = toks[j]
        rest = toks[j + 1:]
        if not re.fullmatch(r"[A-Z][A-Za-z0-9]*", variant):
            raise Untranslatable(f"cannot read the error variant in Err({' '.join(toks)})")
        tag = variant
        if rest[:1] == ["("]:
            pay = rest[1:]
            if pay and pay[0] == "format" and pay[1] == "!":
                pay = pay[3:]
            if pay and pay[0].startswith('"'):
                text = pay[0][1:-1]
                head = text[:24]
                if "{" in head:
                    raise Untranslatable("format placeholder inside the first 24 characters of an error text")
                tag = variant + ":" + re.sub(r"[^A-Za-z0-9]", "_", head)
        return tag

    # ---- blocks.  A block yields a list of entries and whether it ends in Ok(&self.0):
    #   ("guard", cond, tag) | ("nested", method) | ("ext", callee)
    def block(self, binds):
        """parses `{ ... }`; returns (entries, ends_ok)"""
        self.eat("{")
        entries, ends_ok = [], False
        while not self.at("}"):
            if ends_ok:
                raise Untranslatable("code after Ok(&self.0)")
            if self.at("let"):
                self.let_stmt(binds)
            elif self.at("if", "let"):
                entries += self.if_let(binds)
            elif self.at("if"):
                e, ok = self.if_chain(binds)
                entries += e
                ends_ok = ok
            elif self.at("match"):
                e, ok = self.match_(binds)
                entries += e
                ends_ok = ok
                if self.at(";"):
                    self.eat()
            elif self.at("return"):
                self.eat()
                entries.append(("guard", ("true",), self.err_value()))
                self.eat(";")
            elif self.at("Err"):
                entries.append(("guard", ("true",), self.err_value()))
            elif self.at("Ok"):
                for s in ("Ok", "(", "&", "self", ".", "0", ")"):
                    self.eat(s)
                ends_ok = True
            elif self.at("self"):
                a = self.postfix()
                if a[0] == "nested" and self.at(".", "check_ref", "(", ")", "?", ";"):
                    for _ in range(6):
                        self.eat()
                    entries.append(("nested", a[1]))
                else:
                    raise Untranslatable(f"unknown statement starting with self ({a})")
            elif self.at("*"):
                # `*self.0.split_regex.borrow_mut() = Some(SerdeRegex::new(&self.0.split_regex_expr)?);`
                stmt = []
                while not self.at(";"):
                    stmt.append(self.eat())
                self.eat(";")
                text = "".join(stmt)
                hit = [c for c in EXTERNAL if c + "(" in text and text.endswith(")?)") and text.startswith("*self.0.")]
                if len(hit) != 1 or text.count("?") != 1:
                    raise Untranslatable(f"unknown assignment statement: {text}")
                entries.append(("ext", hit[0]))
            else:
                raise Untranslatable(f"unknown statement starting at {self.peek()!r}")
        self.eat("}")
        return entries, ends_ok

    def let_stmt(self, binds):
        self.eat("let")
        self.eat("(")
        a = self.eat(); self.eat(","); b = self.eat()
        self.eat(")")
        self.eat("=")
        e = self.postfix()
        self.eat(";")
        if e[0] != "field":
            raise Untranslatable("let-destructuring of a non-field")
        binds[a] = ("proj", e, 1)
        binds[b] = ("proj", e, 2)

    def if_chain(self, binds):
        """if c {..} [else if c {..}]* [else {..}] -> (entries, ends_ok)"""
        self.eat("if")
        c = self.expr()
        e1, ok1 = self.block(binds)
        if ok1:
            raise Untranslatable("Ok(&self.0) inside a guarded branch")
        entries = [with_cond(c, x) for x in e1]
        if not e1:
            raise Untranslatable("guard with an empty body")
        if self.at("else"):
            self.eat()
            if self.at("if"):
                e2, ok2 = self.if_chain(binds)
            else:
                e2, ok2 = self.block(binds)
            # entries of the else part are only reached when c is false; the then-part must end in an
            # unconditional return, so that sequential evaluation of the flat list is equivalent
            if not (e1[-1][0] == "guard" and e1[-1][1] == ("true",)):
                raise Untranslatable("then-branch of an if/else chain does not end in Err(..)")
            return entries + e2, ok2
        return entries, False

    def if_let(self, binds):
        self.eat("if"); self.eat("let")
        self.eat("Some"); self.eat("(")
        pat = self.pattern()
        self.eat(")")
        self.eat("=")
        e = self.postfix()
        if e[0] != "field":
            raise Untranslatable("if let on a non-field")
        inner, ok = self.block(dict(binds))
        if ok:
            raise Untranslatable("Ok inside if let")
        return [wrap_match(x, e, "some", pat) for x in inner]

    def pattern(self):
        if self.at("("):
            self.eat()
            a = self.eat(); self.eat(","); b = self.eat()
            self.eat(")")
            return ("pair", a, b)
        return ("one", self.eat())

    def match_(self, binds):
        self.eat("match")
        e = self.postfix()
        if e[0] != "field":
            raise Untranslatable("match on a non-field")
        self.eat("{")
        entries, ends_ok = [], False
        while not self.at("}"):
            if ends_ok:
                raise Untranslatable("match arm after the accepting wildcard arm")
            if self.at("_"):
                self.eat(); self.eat("=>")
                for s in ("Ok", "(", "&", "self", ".", "0", ")"):
                    self.eat(s)
                ends_ok = True
            else:
                # Path::Variant(pat) | Path::Variant { field }
                while self.peek(1) == "::":
                    self.eat(); self.eat()
                variant = self.eat()
                if self.at("("):
                    self.eat()
                    tok = self.eat()
                    self.eat(")")
                    pat = ("lit", tok) if tok.isdigit() else ("one", tok)
                elif self.at("{"):
                    self.eat()
                    pat = ("one", self.eat())
                    self.eat("}")
                else:
                    raise Untranslatable("unit variant pattern")
                guard = None
                if self.at("if"):
                    self.eat()
                    guard = self.expr()
                self.eat("=>")
                if self.at("{"):
                    inner, ok = self.block(dict(binds))
                    if ok:
                        raise Untranslatable("Ok inside a match arm block")
                elif self.at("Err"):
                    inner = [("guard", ("true",), self.err_value())]
                else:
                    raise Untranslatable(f"unknown match arm body at {self.peek()!r}")
                if guard is not None:
                    inner = [with_cond(guard, x) for x in inner]
                entries += [wrap_match(x, e, variant, pat) for x in inner]
            if self.at(","):
                self.eat()
        self.eat("}")
        return entries, ends_ok


def with_cond(c, entry):
    if entry[0] != "guard":
        raise Untranslatable("nested/external call under a condition")
    return ("guard", c if entry[1] == ("true",) else ("and", c, entry[1]), entry[2])


def wrap_match(entry, scrut, ctor, pat):
    if entry[0] != "guard":
        raise Untranslatable("nested/external call under a pattern match")
    return ("guard", ("match", scrut, ctor, pat, entry[1]), entry[2])


# ------------------------------------------------------------------------------- typing + emission

class Builder:
    def __init__(self, ns, origin):
        self.ns, self.origin = ns, origin
        self.fields = {}      # name -> type: "nat" | "xf" | ("pair", t) | ("optpair", t) | ("optlist", t) | ("enum", {ctor: t})
        self.order = []
        self.entries = []
        self.failed = None

    def field(self, name, ty=None):
        if name not in self.fields:
            self.fields[name] = None
            self.order.append(name)
        if ty is not None:
            old = self.fields[name]
            if old is not None and old != ty:
                if isinstance(old, tuple) and old[0] == "enum" and isinstance(ty, tuple) and ty[0] == "enum":
                    for k, v in ty[1].items():
                        if old[1].get(k, v) != v:
                            raise Untranslatable(f"field {name}: constructor {k} used at two types")
                        old[1][k] = v
                    return
                raise Untranslatable(f"field {name} used at two types: {old} and {ty}")
            self.fields[name] = ty


class Emit:
    """two passes over the condition ASTs: infer the scalar type of every field / bound variable, then print"""

    def __init__(self, b, binds):
        self.b, self.binds = b, binds
        self.vt = {}  # variable -> "nat" | "xf"

    # ---- pass 1: types
    def ty(self, a, want=None):
        k = a[0]
        if k == "lit":
            return a[1]
        if k == "const":
            return "xf"
        if k == "field":
            self.b.field(a[1])
            if want:
                self.b.field(a[1], want)
            t = self.b.fields[a[1]]
            return t if t in ("nat", "xf") else None
        if k == "var":
            if a[1] in self.binds and want:
                _, f, _ = self.binds[a[1]]
                self.b.field(f[1], ("pair", want))
            if want:
                if self.vt.get(a[1], want) != want:
                    raise Untranslatable(f"variable {a[1]} used at two types")
                self.vt[a[1]] = want
            return self.vt.get(a[1])
        return None

    def infer(self, c):
        k = c[0]
        if k in ("and", "or"):
            self.infer(c[1]); self.infer(c[2])
        elif k == "not":
            self.infer(c[1])
        elif k == "cmp":
            ta, tb = self.ty(c[2]), self.ty(c[3])
            t = ta or tb
            if t:
                self.ty(c[2], t); self.ty(c[3], t)
        elif k == "pred":
            self.ty(c[2], "xf")
        elif k == "contains":
            for x in c[1:]:
                self.ty(x, "xf")
        elif k == "any":
            # element type from the body
            sub = Emit(self.b, self.binds)
            sub.vt = self.vt
            sub.infer(c[3])
            t = self.vt.get(c[2])
            if c[1][0] == "var" and t:
                self.vt[c[1][1]] = ("list", t)
            elif c[1][0] == "field" and t:
                self.b.field(c[1][1], ("list", t))
        elif k == "match":
            _, scrut, ctor, pat, body = c
            self.infer(body)
            self.b.field(scrut[1])
            if ctor == "some":
                if pat[0] == "pair":
                    ts = {self.vt.get(pat[1]), self.vt.get(pat[2])} - {None}
                    if len(ts) == 1:
                        self.b.field(scrut[1], ("optpair", ts.pop()))
                else:
                    t = self.vt.get(pat[1])
                    if isinstance(t, tuple) and t[0] == "list":
                        self.b.field(scrut[1], ("optlist", t[1]))
            else:
                if pat[0] == "lit":
                    self.b.field(scrut[1], ("enum", {ctor: "nat"}))
                else:
                    t = self.vt.get(pat[1])
                    if t in ("nat", "xf"):
                        self.b.field(scrut[1], ("enum", {ctor: t}))
        elif k == "true":
            pass
        else:
            raise Untranslatable(f"condition form {k} is not boolean")

    # ---- pass 2: Lean text
    def val(self, a):
        k = a[0]
        if k == "lit":
            if a[1] == "nat":
                return a[2]
            q = a[2].rstrip(".")
            if not re.fullmatch(r"\d+", q):
                raise Untranslatable(f"non-integral float literal {a[2]}")
            return f"(XF.fin {q})"
        if k == "const":
            if a[1] == "eps":
                # `F::epsilon()` depends on the float type the builder is instantiated at: the builder gets a
                # `carrier` field (f64 | f32) and the guard reads `XF.epsOf p.carrier`
                self.b.field("carrier", "carrier")
                return "(XF.epsOf p.carrier)"
            return {"zero": "XF.zero", "one": "XF.one"}[a[1]]
        if k == "field":
            return f"p.{a[1]}"
        if k == "var":
            if a[1] in self.binds:
                _, f, i = self.binds[a[1]]
                return f"p.{f[1]}.{i}"
            return a[1]
        raise Untranslatable(f"not a value: {a}")

    def tyof(self, a):
        k = a[0]
        if k == "lit":
            return a[1]
        if k == "const":
            return "xf"
        if k == "field":
            return self.b.fields.get(a[1])
        if k == "var":
            if a[1] in self.binds:
                _, f, _ = self.binds[a[1]]
                t = self.b.fields.get(f[1])
                return t[1] if t else None
            return self.vt.get(a[1])
        return None

    def cond(self, c):
        k = c[0]
        if k == "true":
            return "true"
        if k == "and":
            return f"({self.cond(c[1])} && {self.cond(c[2])})"
        if k == "or":
            return f"({self.cond(c[1])} || {self.cond(c[2])})"
        if k == "not":
            return f"(!{self.cond(c[1])})"
        if k == "cmp":
            op, a, b = c[1], c[2], c[3]
            t = self.tyof(a) or self.tyof(b)
            if t == "nat":
                lop = {"==": "==", "!=": "!=", "<": "<", "<=": "≤", ">": ">", ">=": "≥"}[op]
                if op in ("==", "!="):
                    return f"({self.val(a)} {lop} {self.val(b)})"
                return f"(decide ({self.val(a)} {lop} {self.val(b)}))"
            if t == "xf":
                fn = {"==": "XF.eq", "!=": "XF.ne", "<": "XF.lt", "<=": "XF.le", ">": "XF.gt", ">=": "XF.ge"}[op]
                return f"({fn} {self.val(a)} {self.val(b)})"
            raise Untranslatable(f"cannot type the comparison {c}")
        if k == "pred":
            fn = {"is_negative": "XF.isNegative", "is_sign_negative": "XF.isSignNegative", "is_nan": "XF.isNan",
                  "is_infinite": "XF.isInfinite", "is_finite": "XF.isFinite"}[c[1]]
            return f"({fn} {self.val(c[2])})"
        if k == "contains":
            return f"(XF.inClosed {self.val(c[1])} {self.val(c[2])} {self.val(c[3])})"
        if k == "any":
            return f"(List.any {self.val(c[1])} (fun {c[2]} => {self.cond(c[3])}))"
        if k == "match":
            _, scrut, ctor, pat, body = c
            s = f"p.{scrut[1]}"
            if ctor == "some":
                lp = f"some ({pat[1]}, {pat[2]})" if pat[0] == "pair" else f"some {pat[1]}"
                used = self.uses(body, pat[1:])
                lp = re.sub(r"\b(%s)\b" % "|".join(map(re.escape, [v for v in pat[1:] if v not in used] or ["\0"])), "_", lp)
                return f"(match {s} with | {lp} => {self.cond(body)} | none => false)"
            arg = pat[1] if (pat[0] == "lit" or pat[1] in self.uses(body, [pat[1]])) else "_"
            return f"(match {s} with | .{ctor} {arg} => {self.cond(body)} | _ => false)"
        raise Untranslatable(f"cannot print {c}")

    def uses(self, c, names):
        text = repr(c)
        return {n for n in names if re.search(r"'var', '%s'" % re.escape(n), text)}


LEAN_TY = {"nat": "Nat", "xf": "XF"}


def lean_type(t):
    if t in LEAN_TY:
        return LEAN_TY[t]
    if t[0] == "pair":
        return f"({LEAN_TY[t[1]]} × {LEAN_TY[t[1]]})"
    if t[0] == "optpair":
        return f"(Option ({LEAN_TY[t[1]]} × {LEAN_TY[t[1]]}))"
    if t[0] == "optlist":
        return f"(Option (List {LEAN_TY[t[1]]}))"
    if t[0] == "list":
        return f"(List {LEAN_TY[t[1]]})"
    raise Untranslatable(f"no Lean type for {t}")


def parser_for(name, t, ns):
    if t == "nat":
        return f'argNat toks "{name}"'
    if t == "xf":
        return f'argXF toks "{name}"'
    if t == "bool":
        return f'argBool toks "{name}"'
    if t == "carrier":
        return f'argCarrier toks "{name}"'
    if t[0] == "pair":
        return f'arg{LEAN_TY[t[1]]}Pair toks "{name}"'
    if t[0] == "optpair":
        return f'argOpt (arg{LEAN_TY[t[1]]}Pair) toks "{name}"'
    if t[0] == "optlist":
        return f'argOpt (arg{LEAN_TY[t[1]]}List) toks "{name}"'
    if t[0] == "enum":
        return f'{name.capitalize()}T.parse toks "{name}"'
    if t[0] == "nested":
        return f"{t[1]}.parse (subToks \"{name}.\" toks)"
    raise Untranslatable(f"no request parser for {t}")


def translate_impl(ns, origin, check_ref_body, check_body):
    b = Builder(ns, origin)
    want = "self.check_ref()?;Ok(self.0)"
    got = re.sub(r"\s+", "", check_body)
    if got != "{" + want + "}":
        raise Untranslatable(f"`fn check` is not `self.check_ref()?; Ok(self.0)` but {check_body.strip()}")
    p = P(lex(check_ref_body))
    binds = {}
    entries, ok = p.block(binds)
    if p.i != len(p.t):
        raise Untranslatable("trailing tokens after the check_ref body")
    if not ok:
        raise Untranslatable("check_ref does not end in Ok(&self.0)")
    em = Emit(b, binds)
    for _ in range(3):  # type information flows both ways through comparisons of two variables
        for e in entries:
            if e[0] == "guard":
                em.infer(e[1])
    lines = []
    for e in entries:
        if e[0] == "guard":
            lines.append(f'if {em.cond(e[1])} then some "{e[2]}" else none')
        elif e[0] == "nested":
            fld, sub, prefix = NESTED[e[1]]
            b.field(fld, ("nested", sub))
            lines.append(f'match {sub}.check p.{fld} with | .error e => some ("{prefix}" ++ e) | .ok _ => none')
        elif e[0] == "ext":
            fld, tag = EXTERNAL[e[1]]
            b.field(fld, "bool")
            lines.append(f'if !p.{fld} then some "{tag}" else none')
    for f in b.order:
        if b.fields[f] is None:
            raise Untranslatable(f"type of field {f} could not be inferred")
    b.lines = lines
    return b


def emit_builder(b):
    o = [f"/-! `{b.ns}` — generated from {b.origin} -/", f"namespace {b.ns}"]
    for f in b.order:
        t = b.fields[f]
        if isinstance(t, tuple) and t[0] == "enum":
            en = f.capitalize() + "T"
            o.append(f"inductive {en} where")
            for c, ct in t[1].items():
                o.append(f"  | {c} (v : {LEAN_TY[ct]})")
            o.append("  deriving Repr, DecidableEq")
            o.append(f"def {en}.parse (toks : List String) (key : String) : Option {en} :=")
            o.append("  (arg toks key).bind fun s => match s.splitOn \":\" with")
            for c, ct in t[1].items():
                conv = "parseNat" if ct == "nat" else "parseXF"
                o.append(f'    | ["{c}", v] => ({conv} v).map .{c}')
            o.append("    | _ => none")
    o.append("structure Params where")
    for f in b.order:
        t = b.fields[f]
        if t == "bool":
            lt = "Bool"
        elif t == "carrier":
            lt = "Carrier"
        elif isinstance(t, tuple) and t[0] == "enum":
            lt = f.capitalize() + "T"
        elif isinstance(t, tuple) and t[0] == "nested":
            lt = f"{t[1]}.Params"
        else:
            lt = lean_type(t)
        o.append(f"  {f} : {lt}")
    o.append("  deriving Repr")
    o.append("def guards (p : Params) : List (Option String) :=")
    if b.failed:
        o.append('  [some "UNTRANSLATED"]')
    else:
        o.append("  [ " + "\n  , ".join(b.lines) + " ]")
    o.append("def check (p : Params) : Except String Unit := firstErr (guards p)")
    o.append("def parse (toks : List String) : Option Params := do")
    for f in b.order:
        o.append(f"  let {f} ← {parser_for(f, b.fields[f], b.ns)}")
    o.append("  pure { " + ", ".join(b.order) + " }")
    o.append(f"end {b.ns}")
    return "\n".join(o) + "\n"


def find_impls(src):
    """yields (type name, check_ref body text incl. braces, check body text incl. braces, line)"""
    for m in re.finditer(r"impl(?:<[^{]*?>)?\s+ParamGuard\s+for\s+([^\n{]*?)\s*\{", src):
        end = matching_brace(src, m.end() - 1)
        body = src[m.end() - 1:end]
        ty = m.group(1).strip()
        ty = re.sub(r"<[^<>]*>$", "", ty).strip() if not ty.startswith("[<") else re.sub(r">\]<.*$", ">]", ty)
        m1 = re.search(r"fn\s+check_ref\s*\(\s*&self\s*\)[^{]*\{", body)
        m2 = re.search(r"fn\s+check\s*\(\s*self\s*\)[^{]*\{", body)
        if not m1 or not m2:
            raise Untranslatable(f"impl ParamGuard for {ty}: check_ref/check not found")
        b1 = body[m1.end() - 1:matching_brace(body, m1.end() - 1)]
        b2 = body[m2.end() - 1:matching_brace(body, m2.end() - 1)]
        yield ty, b1, b2, src[:m.start()].count("\n") + 1


def main():
    problems, builders = [], []
    known_files = {f for f, _ in FILES}
    # every ParamGuard impl in the repository must be covered
    for dp, dn, fn in os.walk(REPO):
        dn[:] = [d for d in dn if d not in ("target", ".git")]
        for f in fn:
            if f.endswith(".rs"):
                path = os.path.join(dp, f)
                rel = os.path.relpath(path, REPO)
                if rel not in known_files and re.search(r"ParamGuard\s+for\s", open(path, errors="replace").read()):
                    problems.append(f"{rel}: contains an `impl ParamGuard for` that the translator does not cover")
    for rel, table in FILES:
        path = os.path.join(REPO, rel)
        if not os.path.exists(path):
            problems.append(f"{rel}: file not found")
            continue
        src = open(path).read()
        seen = set()
        try:
            impls = list(find_impls(src))
        except Untranslatable as e:
            problems.append(f"{rel}: {e}")
            impls = []
        for ty, b1, b2, line in impls:
            if ty not in table:
                problems.append(f"{rel}:{line}: unknown builder type {ty}")
                continue
            ns = table[ty]
            seen.add(ty)
            try:
                builders.append(translate_impl(ns, f"{rel}:{line}", b1, b2))
            except Untranslatable as e:
                problems.append(f"{rel}:{line} ({ns}): {e}")
                b = Builder(ns, f"{rel}:{line}")
                b.failed = str(e)
                b.lines = []
                builders.append(b)
        for ty in table:
            if ty not in seen:
                problems.append(f"{rel}: expected `impl ParamGuard for {ty}` not found")
                b = Builder(table[ty], rel)
                b.failed = "impl not found"
                b.lines = []
                builders.append(b)
    # nested guards must be emitted before their users
    builders.sort(key=lambda b: 0 if b.ns in {v[1] for v in NESTED.values()} else 1)
    out = ["/- GENERATED by tools/params2lean.py from the ParamGuard impls of the repository under verification.",
           "   Do not edit; regenerated by ./check --setup and every ./check C04. -/",
           "import LinfaSpec.Model.ParamGuard", "",
           "namespace LinfaSpec.Gen.C04", "open LinfaSpec.ParamGuard LinfaSpec.Proto", ""]
    for b in builders:
        try:
            out.append(emit_builder(b))
        except Untranslatable as e:
            problems.append(f"{b.origin} ({b.ns}): {e}")
            b.failed, b.order, b.fields = str(e), [], {}
            out.append(emit_builder(b))
    out.append("/-- builders the translator produced, in emission order -/")
    out.append("def builders : List String := [" + ", ".join(f'"{b.ns}"' for b in builders) + "]")
    out.append("def untranslated : List String := [" + ", ".join(f'"{b.ns}"' for b in builders if b.failed) + "]")
    out.append("")
    out.append("/-- `check` and field decoding by builder name (driver entry point) -/")
    out.append("def checkByName (name : String) (toks : List String) : Option (Except String Unit) :=")
    out.append("  match name with")
    for b in builders:
        out.append(f'  | "{b.ns}" => ({b.ns}.parse toks).map {b.ns}.check')
    out.append("  | _ => none")
    out.append("")
    out.append("end LinfaSpec.Gen.C04")
    os.makedirs(os.path.dirname(OUT), exist_ok=True)
    text = "\n".join(out) + "\n"
    # on failure an existing (stale) translation is left in place so that the shared driver keeps
    # building; the failure itself is reported by the non-zero exit code (a VIOLATION of C04)
    if (not problems or not os.path.exists(OUT)) and (not os.path.exists(OUT) or open(OUT).read() != text):
        open(OUT, "w").write(text)
    if problems:
        print("params2lean: the translator does not understand the current sources:")
        for p in problems:
            print("  " + p)
        return 1
    print(f"params2lean: {len(builders)} builders translated -> {os.path.relpath(OUT, ROOT)}")
    return 0


if __name__ == "__main__":
    sys.exit(main())
