#!/bin/sh
# run from a vp snapshot of /verif: quick tier of every property on several seeds, against a snapshot of /repo's HEAD
[ -n "$VP_RUN_REPO" ] && [ ! -e ../repo ] && ln -s "$VP_RUN_REPO" ../repo
ls -la .. | head
./check --setup > setup.log 2>&1 || { tail -20 setup.log; exit 2; }
for s in ${SWEEP_SEEDS:-11 12 13}; do
  for p in C01 C02 C03 C04 C05 C06 C07 C08 C09 C10 C11 C12 C13 C14 C15 C16 C17 C18 C19 C20; do
    VERIF_SEED=$s ./check $p --tier quick > out_${p}_$s.log 2>&1
    echo "seed=$s $p rc=$? $(tail -1 out_${p}_$s.log | cut -c1-160)"
    grep "^VIOLATION" -A3 out_${p}_$s.log | cut -c1-400
  done
done
