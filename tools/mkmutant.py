#!/usr/bin/env python3
"""tools/mkmutant.py Cxx tag "focus text" — writes /tmp/mprompts/mprompt_Cxx_tag.txt and creates the scratch worktree
/tmp/m_Cxx_tag of /repo for an independent seeded-change sub-agent (which gets nothing from /verif)."""
import json
import os
import subprocess
import sys

ROOT = os.path.dirname(os.path.dirname(os.path.abspath(__file__)))
TEMPLATE = r'''You are helping to evaluate a verification tool by producing a realistic faulty change ("seeded bug") to the Rust machine-learning toolkit rust-ml/linfa. You get a semantic property of the code and your own scratch git worktree of the repository. You have NO access to the verification tool and must not look for it: work only inside your worktree __WT__ and your output directory __OUT__ (do not read or write anything under /verif, and do not modify /repo itself).

The property (it holds on the current code, except for behaviour the maintainers already know to be imperfect):

  id: __ID__
  title: __TITLE__
  statement: __STATEMENT__
  quantified over: __QUANT__
  where it lives: __ANCHORS__

Your task: make ONE small, realistic source change to linfa in __WT__ (the kind of slip a maintainer could make in a refactor or "optimisation": an off-by-one, a wrong bound, a swapped index, a stale variable, a missing case, a wrong comparison, two sites that each look fine alone ...) such that
  1. the workspace still compiles and the existing test suite still passes (run at least `cargo test -p <affected crate> --offline -j4` in the worktree with `CARGO_TARGET_DIR=__WT__/target`; if the change is in the root crate `linfa` or in a crate others depend on (linfa-nn, linfa-kernel), also run the tests of the dependent crates; report exactly what you ran and the result), and
  2. the property above is violated - but NOT in a way ordinary use would expose at once: it should need something specific to manifest (__FOCUS__), and
  3. you demonstrate the violation with a small standalone demonstration: a Rust integration test file (put it in the affected crate's `tests/` directory as `tests/seeded_demo.rs`, or as an example program) that FAILS with your change and PASSES on the unchanged code. Verify both directions yourself (`git diff > /tmp/x.patch; git apply -R ...`).
Do not change or delete existing tests, do not touch Cargo manifests, do not add cfg flags, keep the change to a few lines, and do not leave comments that announce the bug. Before choosing, first check that the behaviour you are about to break really holds on the unchanged code (write the demonstration first and see it pass).

When done, write into __OUT__/ (create it):
  - patch.diff      : `git diff` of the source change ONLY (without the demonstration file), relative to the repository root, applicable with `git apply`
  - seeded_demo.rs  : the demonstration (say in meta.json where it must be placed and how to run it)
  - meta.json       : {"property": "__ID__", "summary": "...what was changed...", "needs": "...what is needed for it to manifest...", "demo_path": "...", "demo_cmd": "...", "tests_run": ["..."], "tests_result": "..."}
Leave the worktree with the change applied. Your final message: a short summary of the change, why the existing tests do not notice it, and what the demonstration shows. The machine is offline (cargo --offline only). Use at most 4 parallel build jobs (`-j4`).
'''

pid, tag, focus = sys.argv[1], sys.argv[2], sys.argv[3]
props = {json.loads(l)["id"]: json.loads(l) for l in open(os.path.join(ROOT, "properties.jsonl"))}
p = props[pid]
anchors = "; ".join(p["anchors"]["files"]) + " - " + "; ".join(m["name"] + " (" + m["where"] + ")" for m in p["anchors"]["mechanism"])
wt, out = f"/tmp/m_{pid}_{tag}", f"/tmp/mo_{pid}_{tag}"
t = (TEMPLATE.replace("__WT__", wt).replace("__OUT__", out).replace("__ID__", pid).replace("__TITLE__", p["title"])
     .replace("__STATEMENT__", p["statement"]).replace("__QUANT__", p["quantifier"]["text"]).replace("__ANCHORS__", anchors).replace("__FOCUS__", focus))
os.makedirs("/tmp/mprompts", exist_ok=True)
open(f"/tmp/mprompts/mprompt_{pid}_{tag}.txt", "w").write(t)
subprocess.run(["git", "-C", "/repo", "worktree", "add", "-q", "--detach", wt, "HEAD"], check=True)
print(wt)
