#!/bin/sh
# tools/mksandbox.sh Cxx — private builder sandbox /tmp/b_Cxx/{verif,repo} (clones of /verif and /repo)
set -e
id="$1"
d="/tmp/b_$id"
rm -rf "$d"
mkdir -p "$d"
git clone -q /verif "$d/verif"
git clone -q /repo "$d/repo"
git -C "$d/verif" checkout -q -b "$id"
git -C "$d/repo" checkout -q -b "$id"
git -C "$d/verif" config user.name builder; git -C "$d/verif" config user.email builder@localhost
git -C "$d/repo" config user.name builder; git -C "$d/repo" config user.email builder@localhost
echo "$d"
