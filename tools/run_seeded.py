#!/usr/bin/env python3
"""
tools/run_seeded.py [<seeded dir> ...]   (default: every directory under /verif/seeded)

For each seeded change: apply patch.diff to /repo's working tree (git apply), run the quick check of the
property it breaks, record whether a VIOLATION line was printed, and undo the change (git checkout -- .).
/repo is always restored, also on error.  Prints one line per change; exit 1 if any is missed.
"""
import json
import os
import subprocess
import sys

ROOT = os.path.dirname(os.path.dirname(os.path.abspath(__file__)))
REPO = os.path.normpath(os.path.join(ROOT, "..", "repo"))


def sh(cmd, cwd=None, timeout=3000):
    p = subprocess.run(cmd, cwd=cwd, stdout=subprocess.PIPE, stderr=subprocess.STDOUT, text=True, timeout=timeout)
    return p.returncode, p.stdout


def main():
    dirs = [os.path.abspath(a) for a in sys.argv[1:]] or sorted(os.path.join(ROOT, "seeded", d) for d in os.listdir(os.path.join(ROOT, "seeded")))
    rc, out = sh(["git", "status", "--porcelain", "--untracked-files=no"], cwd=REPO)
    if out.strip():
        print("refusing: /repo has uncommitted changes to tracked files")
        return 2
    missed = 0
    rp = os.path.join(ROOT, "seeded", "results.json")
    results = json.load(open(rp)) if os.path.exists(rp) else {}
    for d in dirs:
        meta = json.load(open(os.path.join(d, "meta.json")))
        prop = meta["property"]
        patch = os.path.join(d, "patch.diff")
        try:
            rc, out = sh(["git", "apply", patch], cwd=REPO)
            if rc != 0:
                print(f"{os.path.basename(d)}: patch does not apply: {out.strip()[:200]}")
                missed += 1
                continue
            tier = meta.get("tier", "quick")
            rc, out = sh([os.path.join(ROOT, "check"), prop, "--tier", tier], cwd=ROOT)
            viol = [l for l in out.splitlines() if l.startswith("VIOLATION")]
            caught = rc == 1 and bool(viol)
            kind = "no-failing-input-found" if viol and all("no-failing-input-found" in v for v in viol) else "with-failing-input"
            print(f"{os.path.basename(d)}: property={prop} caught={caught} rc={rc} {kind if caught else ''} :: {viol[0] if viol else out.strip().splitlines()[-1][:200]}")
            how = ""
            if caught:
                clauses = sorted({l.split("clause=")[1].split(" ")[0] for l in out.splitlines() if "clause=" in l})
                how = ("oracle clause " + ", ".join(clauses) if clauses else "") + ("; correspondence" if "correspondence:" in out else "") + ("; proof obligation" if "obligation:" in out else "")
                how = how.strip("; ") + (" (no failing input)" if kind == "no-failing-input-found" else " (failing input reported)")
            results[os.path.basename(d)] = {"property": prop, "caught": caught, "how": how}
            if not caught:
                missed += 1
        finally:
            sh(["git", "checkout", "--", "."], cwd=REPO)
    json.dump(results, open(rp, "w"), indent=1, sort_keys=True)
    # evidence files were rewritten by the runs above with violations in them: refresh on the clean tree
    for prop in sorted({json.load(open(os.path.join(d, "meta.json")))["property"] for d in dirs}):
        rc, out = sh([os.path.join(ROOT, "check"), prop, "--tier", "quick"], cwd=ROOT)
        print(f"clean tree {prop}: rc={rc} {out.strip().splitlines()[-1][:160]}")
        if rc != 0:
            missed += 1
    return 1 if missed else 0


if __name__ == "__main__":
    sys.exit(main())
